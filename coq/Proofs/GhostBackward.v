(* Proofs/GhostBackward.v -- the hand-written model of the ghost criterion's backward (Proofs/OptimSM.fb_ghost, used by C03 C05 C10 C11) IS the
   interpretation of the operation list GENERATED from DPTensorFastGradientClipping.backward: reduced-loss backward with hooks on (raw batch
   gradient into p.grad, norms computed), optimizer.zero_grad(), coefficients, second loss, hooks off, second backward (clipped gradients into
   p.grad), hooks on.  A reordering of the statements changes the list and breaks the lemma. *)
From Coq Require Import ZArith List Bool String.
From OV Require Import Base.Num Base.Py Model.OptimState Gen.Optim Gen.Ghost Proofs.OptimSM.
Import ListNotations.
Section GB.
Context {T : Type} {N : Num T}.
(* ledger effect of one statement; the boolean is `hooks_enabled` of the GradSampleModule *)
Definition gop_step (ids : list (Z * Z)) (bid : Z) (r : sres (ost T) bool) (o : gop) : sres (ost T) bool :=
  sbind r (fun s hooks =>
    match o with
    | GBackwardReduced =>
        if hooks then let s := upd_next_bid s (bid + 1)%Z in SOk (upd_grad s (grad_add_raw (o_grad s) ids)) hooks
        else SErr s ValueError                       (* without hooks no norms would be computed *)
    | GOptZeroGrad => sbind (fgc_zero_grad s false) (fun s' _ => SOk s' hooks)
    | GDisableHooks => SOk s false
    | GEnableHooks => SOk s true
    | GBackwardSecond =>
        if hooks then SErr s ValueError              (* with hooks on, the second pass would recompute norms / per-sample gradients *)
        else SOk (upd_grad s (grad_add_items (o_grad s) (clip_items (o_mgn s) ids))) hooks
    | _ => SOk s hooks                               (* pure tensor computations: reduced loss, coefficients, second loss *)
    end).
Definition run_gops (ops : list gop) (s : ost T) (sids : list Z) : sres (ost T) unit :=
  let bid := o_next_bid s in
  let ids := map (fun sid => (bid, sid)) sids in
  sbind (fold_left (gop_step ids bid) ops (SOk s true)) (fun s' hooks => if hooks then SOk s' tt else SErr s' ValueError).

Lemma fb_ghost_is_generated (s : ost T) (sids : list Z) : fb_ghost s sids = run_gops ghost_backward_ops s sids.
Proof.
  unfold run_gops, ghost_backward_ops, fb_ghost. cbn [fold_left gop_step sbind].
  destruct (fgc_zero_grad _ false) as [s1 u|s1 e]; cbn [sbind]; reflexivity.
Qed.
End GB.

(* which clipping norm do the coefficients of the second pass use?  state: (module.max_grad_norm, optimizer.max_grad_norm, the norm
   get_clipping_coef read); `upd` is the value computed by the adaptive update.  The noise is always optimizer.max_grad_norm * sigma. *)
Definition bound_step {B} (upd : B) (st : B * B * option B) (o : gop) : B * B * option B :=
  let '(mb, ob, cb) := st in
  match o with
  | GSyncModuleBound => (ob, ob, cb)
  | GSetModuleBound => (upd, ob, cb)
  | GSetOptimizerBound => (mb, upd, cb)
  | GClipCoef => (mb, ob, Some mb)
  | _ => st
  end.
(* whatever the module's own copy was (set at wrap time; a grad clip scheduler or a second make_private moves only the optimizer's),
   the coefficients are computed with the optimizer's norm -- the one the noise is calibrated to *)
Theorem ghost_clips_with_optimizer_bound {B} (mb ob upd : B) :
  fold_left (bound_step upd) ghost_backward_ops (mb, ob, None) = (ob, ob, Some ob).
Proof. reflexivity. Qed.
Theorem ghost_adaptive_clips_with_updated_bound {B} (mb ob upd : B) :
  fold_left (bound_step upd) ghost_adaptive_backward_ops (mb, ob, None) = (upd, upd, Some upd).
Proof. reflexivity. Qed.
(* the statement list without the synchronisation reads the module's stale copy *)
Theorem ghost_unsynced_refuted : exists (mb ob : nat),
  fold_left (bound_step 0%nat) (filter (fun o => match o with GSyncModuleBound => false | _ => true end) ghost_backward_ops) (mb, ob, None)
  <> (ob, ob, Some ob).
Proof. exists 1%nat, 2%nat. vm_compute. discriminate. Qed.


(* the value of the second loss.  get_clipping_coef returns a vector of shape [B]; the per-sample losses are either a vector [B] or a column
   [B, 1] (MSELoss / BCEWithLogitsLoss on one output unit, the shape the class documents).  torch broadcasting: [B] * [B] is the elementwise
   product, [B] * [B, 1] is the B x B outer product, [B, 1] * [B, 1] is elementwise again. *)
From Coq Require Import Reals Lra.
Local Open Scope R_scope.
Inductive layout := LVec | LCol.
Fixpoint rsum (l : list R) : R := match l with [] => 0 | x :: r => x + rsum r end.
Fixpoint rdot (c l : list R) : R := match c, l with x :: c', y :: l' => x * y + rdot c' l' | _, _ => 0 end.
Definition bcast_sum (lc ll : layout) (c l : list R) : R :=
  match lc, ll with
  | LVec, LCol => rsum (map (fun li => rsum (map (fun cj => cj * li) c)) l)      (* outer product, summed *)
  | _, _ => rdot c l
  end.
(* state: layout of coeff, value of second_loss *)
Definition shape_step (ll : layout) (c l : list R) (st : layout * option R) (o : gop) : layout * option R :=
  match o with
  | GClipCoef => (LVec, snd st)
  | GShapeCoef => (ll, snd st)                      (* reshape([-1] + [1] * (dim - 1)): the losses' own layout *)
  | GSecondSum => (fst st, Some (bcast_sum (fst st) ll c l))
  | _ => st
  end.
(* on the generated statement lists the second loss is sum_i c_i * loss_i when the criterion returns a VECTOR of per-sample losses, plain and adaptive *)
Theorem second_loss_is_weighted_sum_vec (c l : list R) :
  snd (fold_left (shape_step LVec c l) ghost_backward_ops (LVec, None)) = Some (rdot c l) /\
  snd (fold_left (shape_step LVec c l) ghost_adaptive_backward_ops (LVec, None)) = Some (rdot c l).
Proof. split; reflexivity. Qed.
(* ... and for both layouts on any statement list that re-lays the coefficients out before the product (the repair; not the code today) *)
Theorem second_loss_is_weighted_sum_shaped (ll : layout) (c l : list R) (pre post : list gop) :
  (forall o, In o pre -> o <> GSecondSum) -> (forall o, In o post -> o <> GSecondSum /\ o <> GClipCoef /\ o <> GShapeCoef) ->
  snd (fold_left (shape_step ll c l) (pre ++ [GShapeCoef; GSecondLoss; GSecondSum] ++ post) (LVec, None)) = Some (rdot c l).
Proof.
  intros Hpre Hpost. rewrite fold_left_app.
  assert (P : forall ops st, (forall o, In o ops -> o <> GSecondSum) -> snd st = None -> snd (fold_left (shape_step ll c l) ops st) = None).
  { induction ops as [|o ops IH]; intros st H E; [exact E|]. cbn [fold_left]. apply IH; [intros o' Ho'; apply H; now right|].
    assert (o <> GSecondSum) by (apply H; now left). destruct o; cbn; try assumption; congruence. }
  destruct (fold_left (shape_step ll c l) pre (LVec, None)) as [lay r] eqn:E.
  assert (R0 : r = None) by (change r with (snd (lay, r)); rewrite <- E; apply P; [exact Hpre|reflexivity]). subst r.
  cbn [app fold_left shape_step fst snd].
  assert (Q : forall ops st v, (forall o, In o ops -> o <> GSecondSum /\ o <> GClipCoef /\ o <> GShapeCoef) -> snd st = Some v -> snd (fold_left (shape_step ll c l) ops st) = Some v).
  { induction ops as [|o ops IH]; intros st v H Ev; [exact Ev|]. cbn [fold_left]. apply IH; [intros o' Ho'; apply H; now right|].
    destruct (H o (or_introl eq_refl)) as (A & B & C). destruct o; cbn; try assumption; congruence. }
  apply Q; [exact Hpost|]. cbn. destruct ll; reflexivity.
Qed.
(* without the reshape a column of losses is multiplied by (sum of ALL coefficients): no per-sample clipping *)
Lemma rsum_scale (c : list R) y : rsum (map (fun cj => cj * y) c) = rsum c * y.
Proof. induction c as [|x c IHc]; cbn [map rsum]; [ring | rewrite IHc; ring]. Qed.
Lemma outer_sum (c l : list R) : bcast_sum LVec LCol c l = rsum c * rsum l.
Proof.
  unfold bcast_sum. induction l as [|y l IH]; cbn [map rsum]; [ring|]. rewrite IH.
  rewrite rsum_scale. ring.
Qed.
Theorem second_loss_unshaped_refuted : exists c l,
  snd (fold_left (shape_step LCol c l) (filter (fun o => match o with GShapeCoef => false | _ => true end) ghost_backward_ops) (LVec, None)) <> Some (rdot c l).
Proof.
  exists [1; 0], [0; 1]. unfold ghost_backward_ops. cbn [filter fold_left shape_step fst snd]. rewrite outer_sum. cbn [rsum rdot].
  intros H. injection H as H1. nra.
Qed.
