(* Proofs/RdpToDp.v -- C06: the RDP -> (eps, delta) conversion GENERATED from get_privacy_spent is sound
   (Balle, Barthe, Gaboardi, Hsu, Sato 2020, Thm 21), for distributions with finite support and positive atoms. *)
From Coq Require Import ZArith Reals Lra List Rpower Bool Permutation.
From OV Require Import Base.Num Base.NumR Base.Py Gen.Rdp.
Import ListNotations.
Open Scope R_scope.

Lemma ln_div x y : 0 < x -> 0 < y -> ln (x / y) = ln x - ln y.
Proof. intros Hx Hy. unfold Rdiv. rewrite ln_mult; [rewrite ln_Rinv by assumption; ring | assumption | apply Rinv_0_lt_compat; assumption]. Qed.

Lemma ln_le_sub1 u : 0 < u -> ln u <= u - 1.
Proof.
  intros Hu. pose proof (exp_ineq1_le (ln u)) as H. rewrite exp_ln in H by assumption.
  (* 1 + ln u <= u *) lra.
Qed.

(* Bernoulli via AM-GM with B = 1 : x <= x^a / a + (a-1)/a *)
Lemma young1 x a : 0 < x -> 1 < a -> x <= Rpower x a / a + (a - 1) / a.
Proof.
  intros Hx Ha.
  set (A := Rpower x a). assert (HA: 0 < A) by (unfold A, Rpower; apply exp_pos).
  set (m := A / a + (a-1)/a).
  assert (Hm: 0 < m). { unfold m. apply Rplus_lt_0_compat; apply Rdiv_lt_0_compat; lra. }
  assert (H1: ln (A/m) <= A/m - 1) by (apply ln_le_sub1, Rdiv_lt_0_compat; assumption).
  assert (H2: ln (1/m) <= 1/m - 1) by (apply ln_le_sub1, Rdiv_lt_0_compat; lra).
  assert (HlnA: ln A = a * ln x) by (unfold A, Rpower; apply ln_exp).
  rewrite ln_div in H1 by lra. rewrite ln_div, ln_1 in H2 by lra.
  (* (1/a)*(ln A - ln m) + ((a-1)/a)*(0 - ln m) <= (1/a)(A/m -1) + ((a-1)/a)(1/m - 1) = m/m - 1 = 0 *)
  assert (Hsum: (1/a)*(ln A - ln m) + ((a-1)/a)*(0 - ln m) <= (1/a)*(A/m - 1) + ((a-1)/a)*(1/m - 1)).
  { apply Rplus_le_compat; apply Rmult_le_compat_l; try lra.
    - apply Rlt_le, Rdiv_lt_0_compat; lra.
    - apply Rlt_le, Rdiv_lt_0_compat; lra. }
  assert (Hz: (1/a)*(A/m - 1) + ((a-1)/a)*(1/m - 1) = 0).
  { unfold m. field. split; [lra|]. fold m. unfold m in Hm.
    intro E. assert (A + (a-1) = a * (A / a + (a - 1) / a)) by (field; lra). nra. }
  rewrite Hz, HlnA in Hsum.
  assert (Hl: ln x <= ln m). { replace ((1/a)*(a*ln x - ln m) + ((a-1)/a)*(0 - ln m)) with (ln x - ln m) in Hsum by (field; lra). lra. }
  destruct (Rle_or_lt x m) as [|Hlt]; [assumption|].
  apply ln_increasing in Hlt; [lra|assumption].
Qed.

(* pointwise hockey-stick bound:  p - e q <= c * p^a q^(1-a),  c = (1/a) * (a e/(a-1))^(-(a-1)) *)
Definition cst (a e : R) := / a * Rpower (a * e / (a - 1)) (- (a - 1)).
Lemma pointwise p q a e : 0 < p -> 0 < q -> 1 < a -> 0 < e ->
  p - e * q <= cst a e * (Rpower p a * Rpower q (1 - a)).
Proof.
  intros Hp Hq Ha He.
  set (s := a * e / (a - 1)). assert (Hs: 0 < s) by (unfold s; apply Rdiv_lt_0_compat; nra).
  set (x := p / (q * s)). assert (Hx: 0 < x) by (unfold x; apply Rdiv_lt_0_compat; nra).
  pose proof (young1 x a Hx Ha) as Y.
  (* multiply by q*s:  p <= q s x^a / a + q s (a-1)/a = q s x^a / a + e q *)
  assert (Hes: s * ((a-1)/a) = e) by (unfold s; field; lra).
  assert (Hp': p = q * s * x) by (unfold x; field; split; lra).
  assert (Hmain: p - e * q <= q * s * (Rpower x a / a)).
  { rewrite Hp' at 1. rewrite <- Hes.
    assert (q * s * x <= q * s * (Rpower x a / a + (a-1)/a)) by (apply Rmult_le_compat_l; nra). nra. }
  eapply Rle_trans; [exact Hmain|]. apply Req_le.
  (* q s x^a / a = (1/a) s^(-(a-1)) p^a q^(1-a) *)
  unfold cst. fold s. unfold x, Rpower.
  rewrite ln_div by nra. rewrite ln_mult by lra.
  rewrite <- !exp_plus.
  rewrite <- (exp_ln q) at 1 by assumption. rewrite <- (exp_ln s) at 1 by assumption.
  replace (exp (ln q) * exp (ln s) * (exp (a * (ln p - (ln q + ln s))) / a))
    with (/ a * (exp (ln q) * exp (ln s) * exp (a * (ln p - (ln q + ln s))))) by (field; lra).
  replace (/ a * exp (- (a - 1) * ln s) * exp (a * ln p + (1 - a) * ln q))
    with (/ a * (exp (- (a - 1) * ln s) * exp (a * ln p + (1 - a) * ln q))) by ring.
  f_equal. rewrite <- !exp_plus. f_equal. ring.
Qed.

(* finite distributions *)
Definition hs (e : R) (d : list (R*R)) := fold_right (fun pq acc => Rmax 0 (fst pq - e * snd pq) + acc) 0 d.
Definition mom (a : R) (d : list (R*R)) := fold_right (fun pq acc => Rpower (fst pq) a * Rpower (snd pq) (1 - a) + acc) 0 d.
Definition pos (d : list (R*R)) := Forall (fun pq => 0 < fst pq /\ 0 < snd pq) d.
Lemma hs_le_mom d a e : pos d -> 1 < a -> 0 < e -> hs e d <= cst a e * mom a d.
Proof.
  intros Hd Ha He. induction Hd as [|[p q] d [Hp Hq] Hd IH]; simpl.
  - lra.
  - rewrite Rmult_plus_distr_l. apply Rplus_le_compat; [|exact IH].
    apply Rmax_lub; [|apply pointwise; assumption].
    unfold cst. apply Rmult_le_pos; [apply Rmult_le_pos|apply Rmult_le_pos]; try (left; apply exp_pos).
    left; apply Rinv_0_lt_compat; lra.
Qed.


(* the GENERATED epsilon expression *)
Lemma eps_of_rdp_R (rho a delta : R) : eps_of_rdp rho a delta = rho - (ln delta + ln a) / (a - 1) + ln ((a - 1) / a).
Proof. reflexivity. Qed.

(* if the Renyi moment of order a of (P over Q) is at most e^{(a-1) rho}, then the hockey-stick divergence at the
   epsilon the code reports is at most delta *)
Theorem rdp_to_dp_sound d a rho delta :
  pos d -> 1 < a -> 0 < delta ->
  mom a d <= exp ((a - 1) * rho) ->
  hs (exp (eps_of_rdp rho a delta)) d <= delta.
Proof.
  intros Hd Ha Hdl Hm. rewrite eps_of_rdp_R.
  eapply Rle_trans; [exact (hs_le_mom d a _ Hd Ha (exp_pos _))|].
  set (E := rho - (ln delta + ln a) / (a - 1) + ln ((a - 1) / a)).
  assert (Hc: 0 < cst a (exp E)).
  { unfold cst. apply Rmult_lt_0_compat; [apply Rinv_0_lt_compat; lra|apply exp_pos]. }
  eapply Rle_trans; [apply Rmult_le_compat_l; [lra|exact Hm]|]. apply Req_le.
  unfold cst, Rpower.
  assert (HaE: 0 < a * exp E / (a - 1)) by (apply Rdiv_lt_0_compat; [apply Rmult_lt_0_compat; [lra|apply exp_pos]|lra]).
  rewrite ln_div by (try (apply Rmult_lt_0_compat; [lra|apply exp_pos]); lra).
  rewrite ln_mult by (try apply exp_pos; lra). rewrite ln_exp.
  rewrite <- (exp_ln delta) at 1 by assumption.
  rewrite <- (exp_ln (/a)) by (apply Rinv_0_lt_compat; lra). rewrite ln_Rinv by lra.
  rewrite <- !exp_plus. f_equal. unfold E. rewrite ln_div by lra. field. lra.
Qed.

(* the minimum over any non-empty list of orders of valid epsilons is valid *)
Theorem min_over_orders_sound (d : list (R * R)) (delta : R) (cands : list R) (e : R) :
  In e cands -> (forall x, In x cands -> hs (exp x) d <= delta) -> hs (exp e) d <= delta.
Proof. intros H F. now apply F. Qed.

(* ---- composition over the recorded history (C12) ---- *)
Definition hist_rdp (r1 : R -> R -> R) (h : list (R * R * Z)) : R :=
  fold_right (fun '(s, q, n) acc => IZR n * r1 q s + acc) 0 h.
Lemma hist_rdp_perm r1 h h' : Permutation h h' -> hist_rdp r1 h = hist_rdp r1 h'.
Proof.
  unfold hist_rdp. induction 1 as [|x l l' _ IH|x y l|l l' l'' _ IH1 _ IH2]; cbn [fold_right]; try lra.
  - destruct x as [[s q] n]. rewrite IH. reflexivity.
  - destruct x as [[s q] n], y as [[s' q'] n']. lra.
Qed.
Lemma hist_rdp_split r1 s q n1 n2 h : hist_rdp r1 ((s, q, (n1 + n2)%Z) :: h) = hist_rdp r1 ((s, q, n1) :: (s, q, n2) :: h).
Proof. unfold hist_rdp. cbn [fold_right]. rewrite plus_IZR. lra. Qed.
Lemma hist_rdp_app r1 h1 h2 : hist_rdp r1 (h1 ++ h2) = hist_rdp r1 h1 + hist_rdp r1 h2.
Proof. unfold hist_rdp in *. induction h1 as [|[[s q] n] h1 IH]; cbn [fold_right app]; [lra|]. rewrite IH. lra. Qed.
Lemma hist_rdp_mono_steps r1 s q n n' h : 0 <= r1 q s -> (n <= n')%Z -> hist_rdp r1 ((s, q, n) :: h) <= hist_rdp r1 ((s, q, n') :: h).
Proof. intros H Hn. unfold hist_rdp. cbn [fold_right]. apply IZR_le in Hn. nra. Qed.
(* epsilon is monotone in the RDP value and antitone in delta *)
Lemma eps_mono_rdp r r' a delta : r <= r' -> eps_of_rdp r a delta <= eps_of_rdp r' a delta.
Proof. intros H. rewrite !eps_of_rdp_R. lra. Qed.
Lemma eps_antitone_delta r a d d' : 1 < a -> 0 < d <= d' -> eps_of_rdp r a d' <= eps_of_rdp r a d.
Proof.
  intros Ha (H0 & H). rewrite !eps_of_rdp_R.
  assert (ln d <= ln d').
  { destruct H as [H|H]; [left; now apply ln_increasing|subst; right; reflexivity]. }
  assert (0 < / (a - 1)) by (apply Rinv_0_lt_compat; lra).
  unfold Rdiv. nra.
Qed.
