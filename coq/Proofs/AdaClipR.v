(* Proofs/AdaClipR.v -- C20: adaptive clipping formulas (generated) over the reals *)
From Coq Require Import ZArith Reals Lra R_sqrt.
From OV Require Import Base.Num Base.NumR Base.Py Gen.AdaClip.
Local Open Scope R_scope.

(* the update rule: C' = clamp(C * exp(-lr * (b~ - gamma)), min, max) with b~ = noisy count / sample size *)
Theorem ada_update_rule (C noisy n lr gamma maxc minc : R) : minc <= maxc ->
  ada_update C noisy n lr gamma maxc minc = Rmax minc (Rmin maxc (C * exp (- lr * (noisy / n - gamma)))).
Proof.
  intros H. unfold ada_update. cbn. unfold Rltb.
  set (v := C * exp (- lr * (noisy / n - gamma))).
  destruct (Rlt_dec maxc v) as [H1|H1].
  - rewrite Rmin_left by lra. rewrite Rmax_right by lra. reflexivity.
  - rewrite Rmin_right by lra. destruct (Rlt_dec v minc) as [H2|H2].
    + rewrite Rmax_left by lra. reflexivity.
    + rewrite Rmax_right by lra. reflexivity.
Qed.
(* update_max_grad_norm as a whole: an update that follows no sample at all (empty Poisson batches only) leaves the norm as it is -- no division by zero, no nan --
   and any other update is the rule *)
Theorem ada_update_step_empty (C noisy lr gamma maxc minc : R) : ada_update_step C noisy 0 lr gamma maxc minc = C.
Proof. unfold ada_update_step. cbn. unfold Reqb. destruct (Req_EM_T 0 0) as [_|H]; [reflexivity|now elim H]. Qed.
Theorem ada_update_step_rule (C noisy n lr gamma maxc minc : R) : minc <= maxc -> n <> 0 ->
  ada_update_step C noisy n lr gamma maxc minc = Rmax minc (Rmin maxc (C * exp (- lr * (noisy / n - gamma)))).
Proof.
  intros H Hn. unfold ada_update_step. cbn. unfold Reqb. destruct (Req_EM_T n 0) as [E|_]; [now elim Hn|].
  now apply ada_update_rule.
Qed.
(* the new norm depends on the count only through the NOISY count *)
Theorem count_noninterference (C raw raw' z z' n lr gamma maxc minc : R) :
  raw + z = raw' + z' -> ada_update C (raw + z) n lr gamma maxc minc = ada_update C (raw' + z') n lr gamma maxc minc.
Proof. intros ->. reflexivity. Qed.

(* splitting the budget: with sigma_g = (sigma^-2 - (2 sigma_b)^-2)^(-1/2),  sigma_g^-2 + (2 sigma_b)^-2 = sigma^-2 *)
Theorem sigma_split_identity (sigma sigma_b : R) : 0 < sigma -> sigma < 2 * sigma_b ->
  let sg := ada_sigma sigma sigma_b in
  0 < sg /\ 1 / (sg * sg) + 1 / ((2 * sigma_b) * (2 * sigma_b)) = 1 / (sigma * sigma).
Proof.
  intros Hs Hb. unfold ada_sigma. cbn. unfold nsq. cbn.
  set (d := 1 / (sigma * sigma) - 1 / (2 * sigma_b * (2 * sigma_b))).
  assert (Hd : 0 < d).
  { unfold d. assert (0 < sigma * sigma) by nra. assert (sigma * sigma < 2 * sigma_b * (2 * sigma_b)) by nra.
    unfold Rdiv. rewrite !Rmult_1_l. assert (/ (2 * sigma_b * (2 * sigma_b)) < / (sigma * sigma)) by (apply Rinv_lt_contravar; nra). lra. }
  assert (Hq : 0 < sqrt d) by now apply sqrt_lt_R0.
  split; [apply Rdiv_lt_0_compat; lra|].
  replace (1 / sqrt d * (1 / sqrt d)) with (1 / (sqrt d * sqrt d)) by (field; lra).
  rewrite sqrt_sqrt by lra. unfold d. field. nra.
Qed.
(* the gradient noise multiplier is strictly LARGER than the nominal one *)
Theorem sigma_g_gt_sigma (sigma sigma_b : R) : 0 < sigma -> sigma < 2 * sigma_b -> sigma < ada_sigma sigma sigma_b.
Proof.
  intros Hs Hb. destruct (sigma_split_identity sigma sigma_b Hs Hb) as (Hp & E). cbn zeta in *.
  set (sg := ada_sigma sigma sigma_b) in *.
  assert (0 < 1 / (2 * sigma_b * (2 * sigma_b))) by (apply Rdiv_lt_0_compat; nra).
  assert (L : 1 / (sg * sg) < 1 / (sigma * sigma)) by lra.
  destruct (Rlt_or_le sigma sg) as [G|G]; [exact G|exfalso].
  assert (sg * sg <= sigma * sigma) by nra.
  assert (1 / (sigma * sigma) <= 1 / (sg * sg)).
  { unfold Rdiv. rewrite !Rmult_1_l. apply Rinv_le_contravar; nra. }
  lra.
Qed.
