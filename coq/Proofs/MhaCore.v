(* Proofs/MhaCore.v -- C14: the attention core of DPMultiheadAttention.forward, with the GENERATED head split / merge reshapes, computes
   per-head scaled dot-product attention on the right feature slices.  Tensors are functions of their indices; a reshape sequence is the
   index relation of Model/ViewOps; softmax is an arbitrary row function that only looks at the S scores of its row; the ring operations are
   arbitrary (no algebraic law is used: the statement is about which entries meet which). *)
From Coq Require Import List Arith Lia.
From OV Require Import Base.Num Model.GhostNorm Model.ViewOps Gen.Mha Proofs.MhaP.
Import ListNotations.

Section Core.
Context {T : Type} {N : Num T}.
Definition tensor := idx -> T.
(* t' is t seen through the reshape sequence: every entry of t' is the source entry the index relation names *)
Definition realises (st : vstate) (t t' : tensor) : Prop := forall x src, snd st x src -> t' x = t src.

Lemma sum_n_ext_gen n (f g : nat -> T) : (forall i, i < n -> f i = g i) -> sum_n n f = sum_n n g.
Proof. induction n as [|n IH]; intros H; cbn; [reflexivity|]. rewrite IH, H; auto. Qed.

Variable softmax : nat -> (nat -> T) -> nat -> T.
Hypothesis softmax_local : forall S f g, (forall s, s < S -> f s = g s) -> forall s, s < S -> softmax S f s = softmax S g s.

(* the implementation: q scaled, heads split by the generated op lists, scores = q k^T + additive term (attention mask and / or key padding
   mask, already expanded per (batch * head)), softmax over the source positions, weighted sum of v, heads merged by the generated op list *)
Section Impl.
Variables (L S B H hd : nat) (scaling : T) (Q K V : tensor) (bias : nat -> nat -> nat -> T).
Variables (q2 k2 v2 o out : tensor).
Hypothesis Hq : realises (vrun (split_q_ops L B H hd) (vinit (L, B, H * hd))) (fun x => nmul (Q x) scaling) q2.
Hypothesis Hk : realises (vrun (split_k_ops S B H hd) (vinit (S, B, H * hd))) K k2.
Hypothesis Hv : realises (vrun (split_v_ops S B H hd) (vinit (S, B, H * hd))) V v2.
Definition scores (bh l s : nat) : T := nadd (sum_n hd (fun d => nmul (q2 (bh, l, d)) (k2 (bh, s, d)))) (bias bh l s).
Definition weights (bh l : nat) : nat -> T := softmax S (fun s => scores bh l s).
Hypothesis Ho : forall bh l d, o (bh, l, d) = sum_n S (fun s => nmul (weights bh l s) (v2 (bh, s, d))).
Hypothesis Hout : realises (vrun (merge_ops_seq_first L B H hd) (vinit (B * H, L, hd))) o out.

(* the reference: head h of sample b attends with features h*hd .. h*hd + hd - 1 of the projections *)
Definition ref_scores (l b h s : nat) : T :=
  nadd (sum_n hd (fun d => nmul (nmul (Q (l, b, h * hd + d)) scaling) (K (s, b, h * hd + d)))) (bias (b * H + h) l s).
Definition ref_out (l b h d : nat) : T :=
  sum_n S (fun s => nmul (softmax S (fun s' => ref_scores l b h s') s) (V (s, b, h * hd + d))).

Lemma scores_ref l b h s : l < L -> b < B -> h < H -> s < S -> scores (b * H + h) l s = ref_scores l b h s.
Proof.
  intros Hl Hb Hh Hs. unfold scores, ref_scores. f_equal. apply sum_n_ext_gen. intros d Hd.
  rewrite (Hq (b * H + h, l, d) (l, b, h * hd + d)) by (apply (split_heads_correct L B H hd l b h d); assumption).
  destruct (split_kv_same S B H hd) as (EK & _).
  rewrite (Hk (b * H + h, s, d) (s, b, h * hd + d)); [reflexivity|].
  rewrite EK. apply (split_heads_correct S B H hd s b h d); assumption.
Qed.

Theorem attention_core_is_per_head_attention l b h d : l < L -> b < B -> h < H -> d < hd ->
  out (l, b, h * hd + d) = ref_out l b h d.
Proof.
  intros Hl Hb Hh Hd.
  rewrite (Hout (l, b, h * hd + d) (b * H + h, l, d)) by (apply (merge_heads_correct L B H hd l b h d); assumption).
  rewrite Ho. unfold ref_out. apply sum_n_ext_gen. intros s Hs. f_equal.
  - unfold weights. apply softmax_local; [|exact Hs]. intros s' Hs'. apply scores_ref; assumption.
  - destruct (split_kv_same S B H hd) as (_ & EV).
    apply (Hv (b * H + h, s, d) (s, b, h * hd + d)). rewrite EV. apply (split_heads_correct S B H hd s b h d); assumption.
Qed.

(* batch_first = True: the merged output is additionally transposed *)
Variable out_bf : tensor.
Hypothesis Hout_bf : realises (vrun (merge_ops_batch_first L B H hd) (vinit (B * H, L, hd))) o out_bf.
Theorem attention_core_batch_first l b h d : l < L -> b < B -> h < H -> d < hd ->
  out_bf (b, l, h * hd + d) = ref_out l b h d.
Proof.
  intros Hl Hb Hh Hd.
  rewrite (Hout_bf (b, l, h * hd + d) (b * H + h, l, d)) by (apply (merge_heads_batch_first_correct L B H hd l b h d); assumption).
  rewrite Ho. unfold ref_out. apply sum_n_ext_gen. intros s Hs. f_equal.
  - unfold weights. apply softmax_local; [|exact Hs]. intros s' Hs'. apply scores_ref; assumption.
  - destruct (split_kv_same S B H hd) as (_ & EV).
    apply (Hv (b * H + h, s, d) (s, b, h * hd + d)). rewrite EV. apply (split_heads_correct S B H hd s b h d); assumption.
Qed.
End Impl.

(* the hypotheses are satisfiable: every tensor has a view through a reshape sequence whose relation is a `view` of a contiguous tensor --
   read the entry at the same flat offset *)
Definition unflat (s : shape) (off : nat) : idx := let '(_, s1, s2) := s in (off / (s1 * s2), (off / s2) mod s1, off mod s2).
Lemma unflat_flat (s : shape) (y : idx) : inr s y -> unflat s (flat s y) = y.
Proof.
  destruct s as [[s0 s1] s2], y as [[a b] c]. cbn. intros (Ha & Hb & Hc).
  assert (E1 : ((a * s1 + b) * s2 + c) / (s1 * s2) = a).
  { symmetry. apply Nat.div_unique with (b * s2 + c); nia. }
  assert (E2 : ((a * s1 + b) * s2 + c) / s2 = a * s1 + b).
  { symmetry. apply Nat.div_unique with c; nia. }
  assert (E3 : ((a * s1 + b) * s2 + c) mod s2 = c).
  { symmetry. apply Nat.mod_unique with (a * s1 + b); nia. }
  rewrite E1, E2, E3. f_equal. f_equal. symmetry. apply Nat.mod_unique with a; nia.
Qed.
Lemma split_rel (L B H hd i j k : nat) (src : idx) :
  snd (vrun (split_q_ops L B H hd) (vinit (L, B, H * hd))) (i, j, k) src <->
  exists y, inr (L, B, H * hd) y /\ flat (L, B, H * hd) y = flat (L, B * H, hd) (j, i, k) /\ y = src.
Proof. reflexivity. Qed.
Lemma realises_split_exists (L B H hd : nat) (t : tensor) :
  exists t', realises (vrun (split_q_ops L B H hd) (vinit (L, B, H * hd))) t t'.
Proof.
  exists (fun x => let '(i, j, k) := x in t (unflat (L, B, H * hd) (flat (L, B * H, hd) (j, i, k)))).
  intros [[i j] k] src HR. apply split_rel in HR. destruct HR as [y [Hy [Ey Ry]]]. subst src.
  rewrite <- Ey. now rewrite (unflat_flat (L, B, H * hd) y Hy).
Qed.
End Core.
