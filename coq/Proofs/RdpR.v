(* Proofs/RdpR.v -- C06 / C12: the GENERATED RDP formulas over the reals. *)
From Coq Require Import ZArith Reals List Lra Lia Bool Rpower Binomial.
From OV Require Import Base.Num Base.NumR Base.Py Gen.Rdp.
Import ListNotations.
Local Open Scope R_scope.

(* ---- _log_add ---- *)
Lemma log_add_fin_correct (a b : R) : log_add_fin a b = ln (exp a + exp b).
Proof.
  unfold log_add_fin. cbn [nmin nmax nadd nsub nln nexp n1 nleb NumR NumXR].
  assert (H : forall lo hi, ln (1 + exp (lo - hi)) + hi = ln (exp lo + exp hi)).
  { intros lo hi. rewrite <- (ln_exp hi) at 2. rewrite <- ln_mult.
    - f_equal. rewrite Rmult_plus_distr_r, Rmult_1_l, <- exp_plus. replace (lo - hi + hi) with lo by lra. apply Rplus_comm.
    - pose proof (exp_pos (lo - hi)); lra.
    - apply exp_pos. }
  unfold nmin, nmax. cbn [nleb NumR]. unfold Rleb. destruct (Rle_dec a b); rewrite H; [reflexivity|f_equal; apply Rplus_comm].
Qed.

(* log-space accumulation with -inf (None) as the neutral element, as the pinned _log_add / loop do *)
Definition log_add_ext (a : option R) (b : R) : option R :=
  match a with None => Some b | Some x => Some (log_add_fin x b) end.
Definition log_a_int (q sigma : R) (alpha : Z) : option R :=
  fold_left (fun acc i => log_add_ext acc (log_term q sigma alpha i)) (zrange 0 (alpha + 1)) None.

(* the k-th term of the moment series of the Poisson-subsampled Gaussian at integer order alpha *)
Definition term (q sigma : R) (alpha k : nat) : R :=
  C alpha k * q ^ k * (1 - q) ^ (alpha - k) * exp (INR (k * k - k) / (2 * (sigma * sigma))).
Definition A_int (q sigma : R) (alpha : nat) : R := sum_f_R0 (term q sigma alpha) alpha.

Lemma C_pos n k : (k <= n)%nat -> 0 < C n k.
Proof.
  intros H. unfold C. apply Rdiv_lt_0_compat; [apply INR_fact_lt_0|].
  apply Rmult_lt_0_compat; apply INR_fact_lt_0.
Qed.
Lemma term_pos q sigma alpha k : 0 < q < 1 -> (k <= alpha)%nat -> 0 < term q sigma alpha k.
Proof.
  intros Hq Hk. unfold term. apply Rmult_lt_0_compat; [apply Rmult_lt_0_compat; [apply Rmult_lt_0_compat|]|];
    [now apply C_pos | apply pow_lt; lra | apply pow_lt; lra | apply exp_pos].
Qed.
Lemma log_term_correct q sigma (alpha k : nat) : 0 < q < 1 -> (k <= alpha)%nat ->
  log_term q sigma (Z.of_nat alpha) (Z.of_nat k) = ln (term q sigma alpha k).
Proof.
  intros Hq Hk. unfold log_term, term.
  cbn [nadd nsub nmul ndiv nln nofZ npow nbinom n1 NumR NumXR]. rewrite !Nat2Z.id.
  pose proof (C_pos alpha k Hk) as P1. pose proof (pow_lt q k ltac:(lra)) as P2.
  pose proof (pow_lt (1 - q) (alpha - k) ltac:(lra)) as P3.
  pose proof (exp_pos (INR (k * k - k) / (2 * (sigma * sigma)))) as P4.
  assert (P12 : 0 < C alpha k * q ^ k) by (apply Rmult_lt_0_compat; assumption).
  assert (P123 : 0 < C alpha k * q ^ k * (1 - q) ^ (alpha - k)) by (apply Rmult_lt_0_compat; assumption).
  rewrite (ln_mult _ _ P123 P4), (ln_mult _ _ P12 P3), (ln_mult _ _ P1 P2).
  rewrite !ln_pow by lra. rewrite ln_exp.
  replace (Z.of_nat alpha - Z.of_nat k)%Z with (Z.of_nat (alpha - k)) by lia.
  replace (Z.of_nat k * Z.of_nat k - Z.of_nat k)%Z with (Z.of_nat (k * k - k)) by nia.
  rewrite <- !INR_IZR_INZ. replace (sigma * (sigma * 1)) with (sigma * sigma) by ring. replace (IZR 1) with 1 by reflexivity. ring.
Qed.

Lemma fold_log_add_acc q sigma (alpha : nat) (n : nat) (acc : R) (S0 : R) : 0 < q < 1 -> 0 < S0 -> acc = ln S0 -> (n <= alpha)%nat ->
  forall m, (m + n = alpha + 1)%nat ->
  fold_left (fun a i => log_add_ext a (log_term q sigma (Z.of_nat alpha) i))
            (map (fun k => (0 + Z.of_nat k)%Z) (seq m n)) (Some acc)
  = Some (ln (S0 + sum_f_R0 (fun j => term q sigma alpha (m + j)) (n - 1))) \/ n = 0%nat.
Proof.
  intros Hq. revert acc S0. induction n as [|n IH]; intros acc S0 HS Hacc Hn m Hm; [now right|left].
  cbn [seq map fold_left log_add_ext]. rewrite Z.add_0_l, log_term_correct by (auto; lia).
  rewrite log_add_fin_correct, Hacc, !exp_ln by (auto; apply term_pos; auto; lia).
  destruct n as [|n].
  - cbn [seq map fold_left]. cbn. rewrite Nat.add_0_r. reflexivity.
  - destruct (IH (ln (S0 + term q sigma alpha m)) (S0 + term q sigma alpha m)) with (m := S m) as [E|E]; try lia.
    + pose proof (term_pos q sigma alpha m Hq ltac:(lia)). lra.
    + reflexivity.
    + rewrite E. f_equal. f_equal. replace (S n - 1)%nat with n by lia. replace (S (S n) - 1)%nat with (S n) by lia.
      rewrite (decomp_sum (fun j => term q sigma alpha (m + j)) (S n)) by lia. rewrite Nat.add_0_r.
      rewrite Rplus_assoc. f_equal. f_equal. destruct n as [|n'].
      * cbn. f_equal. lia.
      * replace (Init.Nat.pred (S (S n'))) with (S n') by lia. apply sum_eq. intros i _. f_equal. lia.
Qed.

(* C06: the integer-order log-moment computed by the code IS ln A_alpha, A_alpha the binomial moment series *)
Theorem log_a_int_correct q sigma (alpha : nat) : 0 < q < 1 ->
  log_a_int q sigma (Z.of_nat alpha) = Some (ln (A_int q sigma alpha)).
Proof.
  intros Hq. unfold log_a_int, zrange. rewrite Z.sub_0_r. replace (Z.to_nat (Z.of_nat alpha + 1)) with (S alpha) by lia.
  change (seq 0 (S alpha)) with (0%nat :: seq 1 alpha). cbn [map fold_left log_add_ext].
  rewrite Z.add_0_l. rewrite log_term_correct by (auto; lia).
  destruct alpha as [|a].
  - cbn. unfold A_int. cbn. reflexivity.
  - destruct (fold_log_add_acc q sigma (S a) (S a) (ln (term q sigma (S a) 0)) (term q sigma (S a) 0) Hq) with (m := 1%nat) as [E|E]; try lia.
    + apply term_pos; auto; lia.
    + reflexivity.
    + rewrite E. f_equal. f_equal. unfold A_int. rewrite (decomp_sum (term q sigma (S a)) (S a)) by lia.
      f_equal. replace (S a - 1)%nat with a by lia. apply sum_eq. intros i _. reflexivity.
Qed.

(* A_alpha >= 1: every exponential factor is >= 1 and the binomial weights sum to 1; hence RDP >= 0 *)
Theorem A_int_ge_1 q sigma (alpha : nat) : 0 < q < 1 -> 1 <= A_int q sigma alpha.
Proof.
  intros Hq. unfold A_int.
  assert (H1 : sum_f_R0 (fun k => C alpha k * q ^ k * (1 - q) ^ (alpha - k)) alpha = 1).
  { rewrite <- binomial. replace (q + (1 - q)) with 1 by ring. apply pow1. }
  rewrite <- H1. apply sum_Rle. intros k Hk. unfold term.
  rewrite <- (Rmult_1_r (C alpha k * q ^ k * (1 - q) ^ (alpha - k))) at 1.
  apply Rmult_le_compat_l.
  - pose proof (C_pos alpha k Hk). pose proof (pow_lt q k ltac:(lra)). pose proof (pow_lt (1 - q) (alpha - k) ltac:(lra)).
    apply Rlt_le. apply Rmult_lt_0_compat; [apply Rmult_lt_0_compat|]; assumption.
  - rewrite <- exp_0. destruct (Req_dec (INR (k * k - k) / (2 * (sigma * sigma))) 0) as [E|E]; [rewrite E; lra|].
    apply Rlt_le, exp_increasing.
    assert (0 <= INR (k * k - k)) by apply pos_INR.
    destruct (Req_dec sigma 0) as [->|Hs].
    + exfalso. apply E. unfold Rdiv. rewrite Rmult_0_r, Rmult_0_r, Rinv_0. ring.
    + assert (0 < sigma * sigma) by nra. assert (0 <= INR (k * k - k) / (2 * (sigma * sigma))).
      { apply Rmult_le_pos; [assumption|]. left. apply Rinv_0_lt_compat. lra. }
      lra.
Qed.

(* ---- _compute_rdp : the case analysis ---- *)
Lemma Reqb_refl x : Reqb x x = true. Proof. now apply Reqb_true. Qed.
Lemma Reqb_neq x y : x <> y -> Reqb x y = false.
Proof. intros H. unfold Reqb. destruct (Req_EM_T x y); [contradiction|reflexivity]. Qed.
Theorem compute_rdp1_cases (log_a : R -> R -> R -> R) (q sigma alpha : R) :
  (q = 0 -> compute_rdp1 log_a q sigma alpha = Fin 0) /\
  (q <> 0 -> sigma = 0 -> compute_rdp1 log_a q sigma alpha = PInf) /\
  (q = 1 -> sigma <> 0 -> compute_rdp1 log_a q sigma alpha = Fin (alpha / (2 * (sigma * sigma)))) /\
  (q <> 0 -> q <> 1 -> sigma <> 0 -> compute_rdp1 log_a q sigma alpha = Fin (log_a q sigma alpha / (alpha - 1))).
Proof.
  unfold compute_rdp1. cbn [neqb nofZ nofdec ndiv nmul nsub npow n1 NumR]. unfold Rdec. cbn [Z.ltb Z.pow Z.opp].
  replace (1 * (if (0 <? 0)%Z then / 1 else 1)) with 1 by (cbn; ring). replace (sigma * (sigma * 1)) with (sigma * sigma) by ring.
  repeat split.
  - intros ->. now rewrite Reqb_refl.
  - intros H0 ->. rewrite (Reqb_neq q 0 H0), Reqb_refl. reflexivity.
  - intros -> Hs. rewrite (Reqb_neq 1 0) by lra. rewrite (Reqb_neq sigma 0 Hs), Reqb_refl. reflexivity.
  - intros H0 H1 Hs. rewrite (Reqb_neq q 0 H0), (Reqb_neq sigma 0 Hs), (Reqb_neq q 1 H1). reflexivity.
Qed.
