(* the k-fold iterates of Proofs/SchedP.v as the familiar powers, over the reals *)
From Coq Require Import ZArith Reals Lra.
From OV Require Import Base.Num Base.NumR Proofs.SchedP.
Local Open Scope R_scope.
Lemma iter_mul_r (k : nat) (g v : R) : iter k (fun x => nmul x g) v = v * g ^ k.
Proof. induction k as [|k IH]; cbn [iter pow]; [cbn; lra | rewrite IH; cbn; ring]. Qed.
Lemma iter_mul_l (k : nat) (g v : R) : iter k (fun x => nmul g x) v = v * g ^ k.
Proof. induction k as [|k IH]; cbn [iter pow]; [cbn; lra | rewrite IH; cbn; ring]. Qed.
