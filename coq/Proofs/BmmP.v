(* Proofs/BmmP.v -- the batch splitter (C10): numpy.array_split partitions, and what the generated
   BatchSplittingSampler body emits for one logical batch. *)
From Coq Require Import ZArith List Bool Lia Arith.
From OV Require Import Base.Num Base.Py Model.BmmState Gen.Bmm.
Import ListNotations.

Lemma take_chunks_concat l sizes : fold_right plus 0 sizes = length l -> concat (take_chunks l sizes) = l.
Proof.
  revert l. induction sizes as [|n r IH]; intros l H; cbn in *.
  - destruct l; [reflexivity|discriminate].
  - rewrite IH; [apply firstn_skipn|]. rewrite skipn_length. lia.
Qed.
Lemma take_chunks_length l sizes : length (take_chunks l sizes) = length sizes.
Proof. revert l. induction sizes as [|n r IH]; intros l; cbn; [reflexivity|]. now rewrite IH. Qed.
Lemma take_chunks_sizes l sizes :
  fold_right plus 0 sizes = length l -> map (@length Z) (take_chunks l sizes) = sizes.
Proof.
  revert l. induction sizes as [|n r IH]; intros l H; cbn in *; [reflexivity|].
  rewrite firstn_length_le by lia. f_equal. apply IH. rewrite skipn_length. lia.
Qed.

(* sum of the chunk sizes: (n mod k) chunks of size n/k+1 and the rest of size n/k *)
Lemma sum_sizes_aux n k j : (j <= k)%nat ->
  fold_right plus 0 (map (fun i => if Nat.ltb i (n mod k) then S (n / k) else (n / k)) (seq 0 j))
  = (j * (n / k) + Nat.min j (n mod k))%nat.
Proof.
  induction j as [|j IH]; intros H; [reflexivity|].
  rewrite seq_S, map_app, fold_right_app. cbn [map fold_right plus Nat.add].
  assert (E : forall a l, fold_right plus a l = (fold_right plus 0 l + a)%nat).
  { intros a l. induction l as [|x l IHl]; cbn; [reflexivity|]. rewrite IHl. lia. }
  rewrite E, IH by lia. destruct (Nat.ltb_spec j (n mod k)); lia.
Qed.
Lemma sum_sizes n k : (0 < k)%nat -> fold_right plus 0 (chunk_sizes n k) = n.
Proof.
  intros H. unfold chunk_sizes. rewrite sum_sizes_aux by lia.
  pose proof (Nat.mod_upper_bound n k ltac:(lia)). pose proof (Nat.div_mod n k ltac:(lia)).
  rewrite Nat.min_r by lia. lia.
Qed.

(* numpy.array_split(l, k), k >= 1: the chunks concatenate to l, there are k of them, sizes differ by at most one *)
Theorem array_split_partition (l : list Z) (k : Z) : (1 <= k)%Z ->
  concat (array_split l k) = l /\ length (array_split l k) = Z.to_nat k /\
  Forall (fun c => length c = (length l / Z.to_nat k)%nat \/ length c = S (length l / Z.to_nat k)) (array_split l k).
Proof.
  intros H. unfold array_split. set (kk := Z.to_nat k). assert (0 < kk)%nat by lia.
  split; [apply take_chunks_concat; now apply sum_sizes|]. split.
  - rewrite take_chunks_length. unfold chunk_sizes. now rewrite map_length, seq_length.
  - rewrite Forall_forall. intros c Hc.
    assert (Hs : In (length c) (chunk_sizes (length l) kk)).
    { rewrite <- (take_chunks_sizes l (chunk_sizes (length l) kk)) by (now apply sum_sizes). now apply in_map. }
    unfold chunk_sizes in Hs. apply in_map_iff in Hs as (i & E & _).
    destruct (Nat.ltb i (length l mod kk)); [right|left]; now symmetry.
Qed.

(* with k = ceil(n / max) every physical batch has at most `max` samples, and none is empty when n > 0 *)
Theorem array_split_bounded (l : list Z) (mx : Z) : (1 <= mx)%Z -> (0 < length l)%nat ->
  let k := zceil_div (Z.of_nat (length l)) mx in
  (1 <= k)%Z /\ Forall (fun c => (0 < length c)%nat /\ (Z.of_nat (length c) <= mx)%Z) (array_split l k).
Proof.
  intros Hm Hn k.
  assert (Hk : (1 <= k)%Z).
  { unfold k, zceil_div. apply Z.div_le_lower_bound; lia. }
  split; [exact Hk|].
  destruct (array_split_partition l k Hk) as (_ & _ & F). rewrite Forall_forall in *. intros c Hc.
  specialize (F c Hc). set (n := length l) in *. set (kk := Z.to_nat k) in *.
  assert (Kpos : (0 < kk)%nat) by lia.
  assert (Kn : (kk <= n)%nat).
  { unfold kk, k, zceil_div. apply Nat2Z.inj_le. rewrite Z2Nat.id by (apply Z.div_pos; lia).
    apply Z.div_le_upper_bound; nia. }
  assert (Q1 : (1 <= n / kk)%nat) by (apply Nat.div_le_lower_bound; lia).
  (* upper bound: n <= kk * mx, so n/kk <= mx and if n mod kk <> 0 then n/kk < mx *)
  assert (Hub : (Z.of_nat n <= Z.of_nat kk * mx)%Z).
  { unfold kk. rewrite Z2Nat.id by lia. unfold k, zceil_div.
    pose proof (Z.mul_succ_div_gt (Z.of_nat n + mx - 1) mx ltac:(lia)). nia. }
  split; [lia|].
  pose proof (Nat.div_mod n kk ltac:(lia)) as DM. pose proof (Nat.mod_upper_bound n kk ltac:(lia)) as MB.
  destruct F as [F|F]; rewrite F.
  - apply Nat2Z.inj_le in Q1. nia.
  - (* a chunk of size n/kk+1 exists only if n mod kk > 0; then kk*(n/kk) < n <= kk*mx *)
    assert (In (length c) (chunk_sizes n kk)).
    { unfold array_split in Hc. fold n kk in Hc.
      rewrite <- (take_chunks_sizes l (chunk_sizes n kk)) by (apply sum_sizes; lia). now apply in_map. }
    unfold chunk_sizes in H. apply in_map_iff in H as (i & E & _).
    destruct (Nat.ltb_spec i (n mod kk)); [|lia].
    assert (Z.of_nat kk * Z.of_nat (n / kk) < Z.of_nat kk * mx)%Z by nia. nia.
Qed.

(* events emitted by the generated sampler body for one logical batch *)
Fixpoint signals (chunks : list (list Z)) : list bev :=
  match chunks with
  | [] => []
  | [c] => [BSignal false; BYield c]
  | c :: r => BSignal true :: BYield c :: signals r
  end.
Lemma sfold_prefix (cs : list (list Z)) (s : bst) :
  sfoldM (fun s '(tt) x => sbind (b_signal s true) (fun s _ => sbind (b_yield s x) (fun s _ => SOk s tt))) cs s tt
  = SOk (mkbst (b_max s) (b_out s ++ flat_map (fun c => [BSignal true; BYield c]) cs)) tt.
Proof.
  revert s. induction cs as [|c cs IH]; intros s; cbn [sfoldM flat_map].
  - rewrite app_nil_r. destruct s; reflexivity.
  - cbn [b_signal b_yield sbind]. rewrite IH. cbn. rewrite <- !app_assoc. reflexivity.
Qed.
Lemma signals_cons2 x y r : signals (x :: y :: r) = BSignal true :: BYield x :: signals (y :: r).
Proof. reflexivity. Qed.
Lemma signals_snoc cs c : signals (cs ++ [c]) = flat_map (fun c => [BSignal true; BYield c]) cs ++ [BSignal false; BYield c].
Proof.
  induction cs as [|x cs IH]; [reflexivity|]. cbn [flat_map]. rewrite <- !app_assoc, <- IH. cbn [app].
  destruct cs as [|y cs]; [reflexivity|]. cbn [app]. apply signals_cons2.
Qed.

Theorem bmm_one_batch_spec (mx : Z) (out : list bev) (batch : list Z) : (1 <= mx)%Z ->
  bmm_one_batch (mkbst mx out) batch =
  SOk (mkbst mx (out ++ match batch with
                        | [] => [BSignal false; BYield []]
                        | _ => signals (array_split batch (zceil_div (Z.of_nat (length batch)) mx))
                        end)) tt.
Proof.
  intros Hm. unfold bmm_one_batch. destruct batch as [|b0 batch]; [cbn; now rewrite <- app_assoc|].
  set (l := b0 :: batch). assert (Hl : (0 < length l)%nat) by (cbn; lia).
  destruct (Z.eqb_spec (Z.of_nat (length l)) 0); [lia|]. cbn [b_max].
  rewrite map_id.
  destruct (array_split_bounded l mx Hm Hl) as (Hk & _).
  destruct (array_split_partition l _ Hk) as (_ & Hlen & _).
  set (cs := array_split l (zceil_div (Z.of_nat (length l)) mx)) in *.
  assert (NE : cs <> []).
  { intros E. assert (L0 : length cs = 0%nat) by (rewrite E; reflexivity). rewrite Hlen in L0. lia. }
  destruct (exists_last NE) as (pre & lastc & E). rewrite E.
  rewrite removelast_last. 
  rewrite sfold_prefix.
  cbn [sbind b_signal b_yield b_max b_out]. unfold lgetlast. rewrite rev_app_distr. cbn [rev app bindr sbind b_yield b_max b_out].
  rewrite signals_snoc, <- !app_assoc. reflexivity.
Qed.
