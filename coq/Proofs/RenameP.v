(* Proofs/RenameP.v -- the key sets of RenameParamsMixin (DPRNN / DPGRU / DPLSTM) on the definitions generated from param_rename.py (C13). *)
From Coq Require Import List String Bool.
From OV Require Import Gen.Rnn.
Import ListNotations.

Lemma existsb_eqb_In (k : string) (l : list string) : existsb (String.eqb k) l = true <-> In k l.
Proof.
  rewrite existsb_exists. split.
  - intros (x & Hx & E). apply String.eqb_eq in E. now subst.
  - intros H. exists k. split; [exact H | apply String.eqb_refl].
Qed.

(* state_dict(): a key survives iff it is not prefix + an old (sub-module) name; keys of other modules are untouched *)
Theorem rename_filter_spec (prefix : string) (olds keys : list string) (k : string) :
  In k (rename_filter prefix olds keys) <-> In k keys /\ ~ (exists o, In o olds /\ k = String.append prefix o).
Proof.
  unfold rename_filter. rewrite filter_In. split.
  - intros (Hk & Hn). split; [exact Hk|]. intros (o & Ho & E). apply negb_true_iff in Hn.
    assert (X : existsb (fun o0 => String.eqb k (String.append prefix o0)) olds = true).
    { apply existsb_exists. exists o. split; [exact Ho|]. subst k. apply String.eqb_refl. }
    congruence.
  - intros (Hk & Hn). split; [exact Hk|]. apply negb_true_iff. destruct (existsb _ olds) eqn:E; [|reflexivity].
    exfalso. apply Hn. apply existsb_exists in E. destruct E as (o & Ho & E). exists o. split; [exact Ho|]. now apply String.eqb_eq in E.
Qed.

(* load: nothing is taken away, and every sub-module name whose renamed key is present is offered *)
Lemma rename_offer_incl (prefix : string) (pairs : list (string * string)) (keys : list string) : incl keys (rename_offer prefix pairs keys).
Proof.
  unfold rename_offer. revert keys. induction pairs as [|[o n] ps IH]; intros keys k Hk; [exact Hk|].
  cbn [fold_left]. apply IH. destruct (_ && _); [apply in_or_app; now left | exact Hk].
Qed.
Theorem rename_offer_spec (prefix : string) (pairs : list (string * string)) (keys : list string) (o n : string) :
  In (o, n) pairs -> In (String.append prefix n) keys -> In (String.append prefix o) (rename_offer prefix pairs keys).
Proof.
  revert keys. induction pairs as [|[o' n'] ps IH]; intros keys Hp Hn; [destruct Hp|].
  unfold rename_offer. cbn [fold_left]. fold (rename_offer prefix ps). destruct Hp as [E|Hp].
  - inversion E; subst o' n'. apply (rename_offer_incl prefix ps).
    destruct (existsb (String.eqb (String.append prefix o)) keys) eqn:Eo.
    + cbn [negb]. rewrite andb_false_r. apply existsb_eqb_In. exact Eo.
    + assert (En : existsb (String.eqb (String.append prefix n)) keys = true).
      { apply existsb_exists. exists (String.append prefix n). split; [exact Hn | apply String.eqb_refl]. }
      rewrite En. cbn. apply in_or_app. right. now left.
  - apply IH; [exact Hp|]. destruct (_ && _); [apply in_or_app; now left | exact Hn].
Qed.
(* the un-prefixed filter leaves the sub-module keys of a nested layer in place *)
Theorem rename_filter_unprefixed_refuted : exists prefix olds keys k,
  In k (filter (fun k => negb (existsb (fun o => String.eqb k o) olds)) keys) /\ In k keys /\ exists o, In o olds /\ k = String.append prefix o.
Proof.
  exists "rnn."%string, ["l0.ih.weight"%string], ["rnn.l0.ih.weight"%string], "rnn.l0.ih.weight"%string.
  split; [cbn; now left|]. split; [now left|]. exists "l0.ih.weight"%string. split; [now left | reflexivity].
Qed.

Lemma append_inj (p a b : string) : String.append p a = String.append p b -> a = b.
Proof. induction p as [|c p IH]; cbn; intros H; [exact H|]. inversion H. now apply IH. Qed.

(* the model's state_dict of a renamed layer stored under `prefix`: its raw keys are the renamed names followed by the sub-modules' own
   names; when no renamed name is also a sub-module name, what is left is exactly the renamed names, in order *)
Theorem rename_filter_exact (prefix : string) (olds news : list string) :
  (forall n, In n news -> ~ In n olds) ->
  rename_filter prefix olds (map (String.append prefix) (news ++ olds)) = map (String.append prefix) news.
Proof.
  intros D. unfold rename_filter. rewrite map_app, filter_app.
  assert (A : forall l, (forall n, In n l -> ~ In n olds) ->
              filter (fun k => negb (existsb (fun o => String.eqb k (String.append prefix o)) olds)) (map (String.append prefix) l) = map (String.append prefix) l).
  { induction l as [|n l IH]; intros H; [reflexivity|]. cbn [map filter].
    destruct (existsb _ olds) eqn:E.
    - exfalso. apply existsb_exists in E. destruct E as (o & Ho & E). apply String.eqb_eq in E. apply append_inj in E. subst o.
      exact (H n (or_introl eq_refl) Ho).
    - cbn [negb]. f_equal. apply IH. intros m Hm. apply H. now right. }
  assert (B : forall l, incl l olds ->
              filter (fun k => negb (existsb (fun o => String.eqb k (String.append prefix o)) olds)) (map (String.append prefix) l) = []).
  { induction l as [|n l IH]; intros H; [reflexivity|]. cbn [map filter].
    assert (E : existsb (fun o => String.eqb (String.append prefix n) (String.append prefix o)) olds = true).
    { apply existsb_exists. exists n. split; [apply H; now left | apply String.eqb_refl]. }
    rewrite E. cbn [negb]. apply IH. intros m Hm. apply H. now right. }
  rewrite (A news D), (B olds (incl_refl olds)). apply app_nil_r.
Qed.
