(* Proofs/BatchP.v -- the empty batch of DPDataLoader has the structure, trailing shapes and dtypes of any batch it is derived from, and
   batch extent zero everywhere (C09). *)
From Coq Require Import List String Arith Lia.
From OV Require Import Model.Batch.
Import ListNotations.

Section Ind.
Variable P : btree -> Prop.
Hypothesis HT : forall n tr dt, P (BTensor n tr dt).
Hypothesis HM : forall kv, Forall (fun p => P (snd p)) kv -> P (BMap kv).
Hypothesis HS : forall tag l, Forall P l -> P (BSeq tag l).
Hypothesis HSt : forall tag n, P (BStrs tag n).
Hypothesis HL : forall t, P (BLeaf t).
Fixpoint btree_ind' (b : btree) : P b :=
  match b with
  | BTensor n tr dt => HT n tr dt
  | BMap kv => HM kv ((fix go (l : list (string * btree)) : Forall (fun p => P (snd p)) l :=
                         match l with [] => Forall_nil _ | p :: r => Forall_cons p (btree_ind' (snd p)) (go r) end) kv)
  | BSeq tag l => HS tag l ((fix go (l : list btree) : Forall P l :=
                              match l with [] => Forall_nil _ | x :: r => Forall_cons x (btree_ind' x) (go r) end) l)
  | BStrs tag n => HSt tag n
  | BLeaf t => HL t
  end.
End Ind.

Lemma map_ext_Forall {A B} (f g : A -> B) (l : list A) : Forall (fun x => f x = g x) l -> map f l = map g l.
Proof. induction 1 as [|x l H _ IH]; cbn; [reflexivity|]. now rewrite H, IH. Qed.

(* same structure, trailing shapes and dtypes *)
Theorem empty_like_skeleton (b : btree) : skeleton (empty_like b) = skeleton b.
Proof.
  induction b as [n tr dt|kv IH|tag l IH|tag n|t] using btree_ind'; cbn; try reflexivity.
  - f_equal. rewrite map_map. apply map_ext_Forall. cbn. eapply Forall_impl; [|exact IH]. cbn. intros p H. now rewrite H.
  - f_equal. rewrite map_map. apply map_ext_Forall. exact IH.
Qed.
(* every batch extent is zero *)
Theorem empty_like_extents (b : btree) : Forall (fun n => n = 0) (extents (empty_like b)).
Proof.
  induction b as [n tr dt|kv IH|tag l IH|tag n|t] using btree_ind'; cbn; try (repeat constructor).
  - induction IH as [|p r H _ IHr]; cbn; [constructor|]. apply Forall_app. split; assumption.
  - induction IH as [|x r H _ IHr]; cbn; [constructor|]. apply Forall_app. split; assumption.
Qed.
(* the prepared template may itself be an empty batch: cutting again changes nothing *)
Theorem empty_like_idem (b : btree) : empty_like (empty_like b) = empty_like b.
Proof.
  induction b as [n tr dt|kv IH|tag l IH|tag n|t] using btree_ind'; cbn; try reflexivity.
  - f_equal. rewrite map_map. apply map_ext_Forall. cbn. eapply Forall_impl; [|exact IH]. cbn. intros p H. now rewrite H.
  - f_equal. rewrite map_map. apply map_ext_Forall. exact IH.
Qed.
(* the loader's collate: for every number of samples the delivered batch has the skeleton of the template's, provided the wrapped
   collate function itself produces batches of one skeleton (a property of the user's function, assumed) *)
Theorem dp_collate_skeleton (collate_fn : nat -> btree) (n : nat) :
  (forall k, 0 < k -> skeleton (collate_fn k) = skeleton (collate_fn 1)) ->
  skeleton (dp_collate collate_fn (empty_like (collate_fn 1)) n) = skeleton (collate_fn 1) /\
  (n = 0 -> Forall (fun e => e = 0) (extents (dp_collate collate_fn (empty_like (collate_fn 1)) n))).
Proof.
  intros H. unfold dp_collate. destruct (Nat.ltb_spec 0 n) as [Hn|Hn].
  - split; [apply H; exact Hn|lia].
  - split; [now rewrite empty_like_idem, empty_like_skeleton|intros _; rewrite empty_like_idem; apply empty_like_extents].
Qed.
