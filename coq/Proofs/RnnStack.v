(* Proofs/RnnStack.v -- C13: the layer loop of DPRNNBase.forward (layers x directions, dropout between layers) is the torch.nn stacking semantics, and
   running a row-wise computation on length-sorted rows and restoring the order afterwards is the computation on the original rows. *)
From Coq Require Import List Arith Lia.
Import ListNotations.
Section Stack.
Variables (Seq St : Type).
Variable run : nat -> nat -> Seq -> St -> Seq * St.   (* layer, direction, inputs, initial state -> outputs, last state *)
Variable cat : list Seq -> Seq.                         (* the directions' outputs joined along the feature dimension *)
Variable drop : nat -> Seq -> Seq.                      (* dropout on the outputs of layer l (identity in eval mode / dropout = 0) *)
Variable P : nat.                                        (* number of directions *)
Variable h0 : nat -> St.                                 (* initial states, index layer * P + direction *)
Definition runs (layer : nat) (input : Seq) : list (Seq * St) := map (fun dir => run layer dir input (h0 (layer * P + dir))) (seq 0 P).
(* the layer loop of DPRNNBase.forward: `rest` layers remain, `layer` is the index of the next one *)
Fixpoint stack (rest layer : nat) (input : Seq) (acc : list St) : Seq * list St :=
  match rest with
  | 0 => (input, acc)
  | S rest' =>
      let rs := runs layer input in
      let out := cat (map fst rs) in
      let out' := if Nat.eqb rest' 0 then out else drop layer out in      (* `if self.dropout and layer < self.num_layers - 1` *)
      stack rest' (S layer) out' (acc ++ map snd rs)
  end.
(* torch.nn semantics: the input of layer l+1 is the dropped output of layer l; the result is the UNdropped output of the last layer; the
   final states are those of every (layer, direction), layer-major *)
Fixpoint layer_input (x : Seq) (l : nat) : Seq :=
  match l with 0 => x | S k => drop k (cat (map fst (runs k (layer_input x k)))) end.
Definition layer_states (x : Seq) (l : nat) : list St := map snd (runs l (layer_input x l)).
Fixpoint all_states (x : Seq) (L : nat) : list St := match L with 0 => [] | S k => all_states x k ++ layer_states x k end.

Lemma stack_gen (rest : nat) : forall layer x acc, 0 < rest ->
  stack rest layer (layer_input x layer) acc =
  (cat (map fst (runs (layer + rest - 1) (layer_input x (layer + rest - 1)))),
   acc ++ concat (map (layer_states x) (seq layer rest))).
Proof.
  induction rest as [|rest IH]; intros layer x acc H; [lia|].
  cbn [stack]. destruct rest as [|rest].
  - cbn. replace (layer + 1 - 1) with layer by lia. unfold layer_states. now rewrite app_nil_r.
  - change (Nat.eqb (S rest) 0) with false. cbv iota.
    change (drop layer (cat (map fst (runs layer (layer_input x layer))))) with (layer_input x (S layer)).
    rewrite IH by lia. replace (S layer + S rest - 1) with (layer + S (S rest) - 1) by lia.
    f_equal. cbn [seq map concat]. unfold layer_states at 2. now rewrite <- app_assoc.
Qed.
Lemma all_states_concat x L : all_states x L = concat (map (layer_states x) (seq 0 L)).
Proof.
  induction L as [|L IH]; [reflexivity|]. cbn [all_states]. rewrite seq_S, map_app, concat_app, IH. cbn. now rewrite app_nil_r.
Qed.
Theorem stack_is_torch_semantics (L : nat) (x : Seq) : 0 < L ->
  stack L 0 x [] = (cat (map fst (runs (L - 1) (layer_input x (L - 1)))), all_states x L).
Proof.
  intros H. change x with (layer_input x 0) at 1. rewrite stack_gen by exact H. cbn [plus app]. now rewrite all_states_concat.
Qed.
(* the number of returned states, and which one is which *)
Lemma layer_states_length x l : length (layer_states x l) = P.
Proof. unfold layer_states, runs. now rewrite !map_length, seq_length. Qed.
Theorem all_states_length x L : length (all_states x L) = L * P.
Proof. induction L as [|L IH]; [reflexivity|]. cbn [all_states]. rewrite app_length, IH, layer_states_length. lia. Qed.
Theorem all_states_nth x L l dir d : l < L -> dir < P ->
  nth (l * P + dir) (all_states x L) d = snd (run l dir (layer_input x l) (h0 (l * P + dir))).
Proof.
  induction L as [|L IH]; intros Hl Hd; [lia|]. cbn [all_states].
  destruct (Nat.eq_dec l L) as [->|NE].
  - rewrite app_nth2 by (rewrite all_states_length; lia). rewrite all_states_length. replace (L * P + dir - L * P) with dir by lia.
    unfold layer_states, runs. rewrite map_map.
    rewrite (nth_indep _ d ((fun dir0 => snd (run L dir0 (layer_input x L) (h0 (L * P + dir0)))) 0)) by (rewrite map_length, seq_length; exact Hd).
    rewrite (map_nth (fun dir0 => snd (run L dir0 (layer_input x L) (h0 (L * P + dir0)))) (seq 0 P) 0 dir). now rewrite seq_nth.
  - rewrite app_nth1 by (rewrite all_states_length; nia). apply IH; lia.
Qed.
End Stack.
Section Perm.
Variables (A B : Type) (dA : A) (dB : B).
(* torch.index_select along the batch dimension: apply_permutation(t, dim, perm) *)
Definition select {X} (d : X) (l : list X) (p : list nat) : list X := map (fun j => nth j l d) p.
Lemma select_length {X} (d : X) l p : length (select d l p) = length p.
Proof. unfold select. apply map_length. Qed.
Lemma nth_select {X} (d : X) l p i : i < length p -> nth i (select d l p) d = nth (nth i p 0) l d.
Proof.
  intros H. unfold select. rewrite (nth_indep _ d ((fun j => nth j l d) 0)) by (rewrite map_length; exact H).
  rewrite (map_nth (fun j => nth j l d) p 0 i). reflexivity.
Qed.
(* a row-wise computation F (row i of the result depends on row i of the inputs only) run on the length-sorted rows and un-sorted afterwards
   is the row-wise computation on the original rows: the sequences are sorted by `sorted`, the results restored by `unsorted`,
   where unsorted is the inverse permutation *)
Theorem sort_unsort_rowwise (F : A -> B) (rows : list A) (sorted unsorted : list nat) :
  length sorted = length rows -> length unsorted = length rows ->
  (forall i, i < length rows -> nth i unsorted 0 < length rows /\ nth (nth i unsorted 0) sorted 0 = i) ->
  select dB (map F (select dA rows sorted)) unsorted = map F rows.
Proof.
  intros Ls Lu Inv. apply nth_ext with (d := dB) (d' := dB).
  - rewrite select_length, map_length. exact Lu.
  - intros i Hi. rewrite select_length in Hi. rewrite nth_select by exact Hi.
    destruct (Inv i ltac:(lia)) as (Hb & He).
    rewrite (nth_indep _ dB (F dA)) by (rewrite map_length, select_length; lia).
    rewrite (map_nth F). rewrite nth_select by lia. rewrite He.
    rewrite (nth_indep (map F rows) dB (F dA)) by (rewrite map_length; lia). now rewrite map_nth.
Qed.
End Perm.
