(* Proofs/PrvP.v -- C07: index and shift bookkeeping of the PRV accountant (generated pieces), over Z and R. *)
From Coq Require Import ZArith Reals List Lra Lia Bool.
From OV Require Import Base.Num Base.NumR Base.NumZ Base.Py Gen.Prv.
Import ListNotations.

(* after the roll, index k of the n-fold circular self-convolution sits where the value n*t0 + k*dt belongs,
   for BOTH parities of n:  (k + m) mod N = (k - (n-1) M) mod N  with N = 2M + 2 *)
Theorem roll_alignment (n M k : Z) : (1 <= n)%Z -> (0 <= M)%Z ->
  let N := (2 * M + 2)%Z in
  ((k + roll_amount n N) mod N = (k - (n - 1) * M) mod N)%Z.
Proof.
  intros Hn HM N. unfold roll_amount.
  assert (HN : (N / 2 = M + 1)%Z) by (unfold N; replace (2 * M + 2)%Z with ((M + 1) * 2)%Z by lia; apply Z.div_mul; lia).
  rewrite HN.
  destruct (Z.eqb_spec (n mod 2) 0) as [E|E].
  - assert (Hj : exists j, n = (2 * j)%Z) by (exists (n / 2)%Z; pose proof (Z.div_mod n 2 ltac:(lia)); lia).
    destruct Hj as (j & ->).
    replace (k + (2 * j - 1 + (M + 1)))%Z with ((k - (2 * j - 1) * M) + j * N)%Z by (unfold N; lia).
    apply Z.mod_add. unfold N; lia.
  - assert (Hj : exists j, n = (2 * j + 1)%Z).
    { exists (n / 2)%Z. pose proof (Z.div_mod n 2 ltac:(lia)). pose proof (Z.mod_pos_bound n 2 ltac:(lia)). lia. }
    destruct Hj as (j & ->).
    replace (k + (2 * j + 1 - 1))%Z with ((k - (2 * j + 1 - 1) * M) + j * N)%Z by (unfold N; lia).
    apply Z.mod_add. unfold N; lia.
Qed.

(* the aligned grid always has an even number of points (required by the parity bookkeeping above) *)
Theorem aligned_size_even (r : Z) : (aligned_size r mod 2 = 0)%Z.
Proof.
  unfold aligned_size. destruct (Z.eqb_spec ((r + 1) mod 2) 1) as [E|E].
  - rewrite <- Zplus_mod_idemp_l, E. reflexivity.
  - pose proof (Z.mod_pos_bound (r + 1) 2 ltac:(lia)). lia.
Qed.

(* domain shifts add up: n-fold self-composition carries n * shifts, composing two carries the sum *)
Theorem fourier_shifts_total (s : R) (n : Z) : fourier_shifts s n = (IZR n * s)%R.
Proof. unfold fourier_shifts. cbn. rewrite minus_IZR. ring. Qed.
Theorem tree_shifts_total (l : list R) : fold_right two_shifts 0%R l = fold_right Rplus 0%R l.
Proof. reflexivity. Qed.

(* the (lower, estimate, upper) triple is ordered whenever find_epsilon is non-increasing in its target delta *)
Theorem eps_triple_ordered (f : R -> R) (delta delta_error eps_error : R) :
  (forall x y, (x <= y)%R -> (f y <= f x)%R) -> (0 <= delta_error)%R -> (0 <= eps_error)%R ->
  let '(lo, est, up) := eps_triple f delta delta_error eps_error in (lo <= est <= up)%R.
Proof.
  intros Hf Hd He. unfold eps_triple. cbn.
  pose proof (Hf delta (delta + delta_error)%R ltac:(lra)). pose proof (Hf (delta - delta_error)%R delta ltac:(lra)). lra.
Qed.

(* compute_delta_estimate: delta(eps) = sum_{t_i >= eps} p_i (1 - e^{eps - t_i}) is non-increasing in eps for a non-negative pmf *)
Definition delta_est (pt : list (R * R)) (eps : R) : R :=
  fold_right (fun '(p, t) acc => (if Rle_dec eps t then p * (1 - exp (eps - t)) else 0) + acc)%R 0%R pt.
Theorem delta_est_antitone (pt : list (R * R)) (e e' : R) :
  Forall (fun '(p, _) => (0 <= p)%R) pt -> (e <= e')%R -> (delta_est pt e' <= delta_est pt e)%R.
Proof.
  intros Hp He. induction Hp as [|[p t] pt Hp0 _ IH]; cbn; [lra|].
  apply Rplus_le_compat; [|exact IH].
  destruct (Rle_dec e' t) as [H1|H1], (Rle_dec e t) as [H2|H2]; try lra.
  - apply Rmult_le_compat_l; [exact Hp0|]. apply Rplus_le_compat_l, Ropp_le_contravar.
    destruct (Req_dec e e') as [->|Hne]; [lra|]. left. apply exp_increasing. lra.
  - apply Rmult_le_pos; [exact Hp0|]. assert (exp (e - t) <= 1)%R; [|lra].
    rewrite <- exp_0. destruct (Req_dec (e - t) 0) as [->|Hne]; [lra|]. left. apply exp_increasing. lra.
Qed.
