(* Proofs/PrvP.v -- C07: index and shift bookkeeping of the PRV accountant (generated pieces), over Z and R. *)
From Coq Require Import ZArith Reals List Lra Lia Bool.
From OV Require Import Base.Num Base.NumR Base.NumZ Base.Py Gen.Prv.
Import ListNotations.

(* after the roll, index k of the n-fold circular self-convolution sits where the value n*t0 + k*dt belongs,
   for BOTH parities of n:  (k + m) mod N = (k - (n-1) M) mod N  with N = 2M + 2 *)
Theorem roll_alignment (n M k : Z) : (1 <= n)%Z -> (0 <= M)%Z ->
  let N := (2 * M + 2)%Z in
  ((k + roll_amount n N) mod N = (k - (n - 1) * M) mod N)%Z.
Proof.
  intros Hn HM N. unfold roll_amount.
  assert (HN : (N / 2 = M + 1)%Z) by (unfold N; replace (2 * M + 2)%Z with ((M + 1) * 2)%Z by lia; apply Z.div_mul; lia).
  rewrite HN.
  destruct (Z.eqb_spec (n mod 2) 0) as [E|E].
  - assert (Hj : exists j, n = (2 * j)%Z) by (exists (n / 2)%Z; pose proof (Z.div_mod n 2 ltac:(lia)); lia).
    destruct Hj as (j & ->).
    replace (k + (2 * j - 1 + (M + 1)))%Z with ((k - (2 * j - 1) * M) + j * N)%Z by (unfold N; lia).
    apply Z.mod_add. unfold N; lia.
  - assert (Hj : exists j, n = (2 * j + 1)%Z).
    { exists (n / 2)%Z. pose proof (Z.div_mod n 2 ltac:(lia)). pose proof (Z.mod_pos_bound n 2 ltac:(lia)). lia. }
    destruct Hj as (j & ->).
    replace (k + (2 * j + 1 - 1))%Z with ((k - (2 * j + 1 - 1) * M) + j * N)%Z by (unfold N; lia).
    apply Z.mod_add. unfold N; lia.
Qed.

(* the aligned grid always has an even number of points (required by the parity bookkeeping above) *)
Theorem aligned_size_even (r : Z) : (aligned_size r mod 2 = 0)%Z.
Proof.
  unfold aligned_size. destruct (Z.eqb_spec ((r + 1) mod 2) 1) as [E|E].
  - rewrite <- Zplus_mod_idemp_l, E. reflexivity.
  - pose proof (Z.mod_pos_bound (r + 1) 2 ltac:(lia)). lia.
Qed.

(* domain shifts add up: n-fold self-composition carries n * shifts, composing two carries the sum *)
Theorem fourier_shifts_total (s : R) (n : Z) : fourier_shifts s n = (IZR n * s)%R.
Proof. unfold fourier_shifts. cbn. rewrite minus_IZR. ring. Qed.
Theorem tree_shifts_total (l : list R) : fold_right two_shifts 0%R l = fold_right Rplus 0%R l.
Proof. reflexivity. Qed.

(* the (lower, estimate, upper) triple is ordered whenever find_epsilon is non-increasing in its target delta *)
Theorem eps_triple_ordered (f : R -> R) (delta delta_error eps_error : R) :
  (forall x y, (x <= y)%R -> (f y <= f x)%R) -> (0 <= delta_error)%R -> (0 <= eps_error)%R ->
  let '(lo, est, up) := eps_triple f delta delta_error eps_error in (lo <= est <= up)%R.
Proof.
  intros Hf Hd He. unfold eps_triple. cbn.
  pose proof (Hf delta (delta + delta_error)%R ltac:(lra)). pose proof (Hf (delta - delta_error)%R delta ltac:(lra)). lra.
Qed.

(* compute_delta_estimate: delta(eps) = sum_{t_i >= eps} p_i (1 - e^{eps - t_i}) is non-increasing in eps for a non-negative pmf *)
Definition delta_est (pt : list (R * R)) (eps : R) : R :=
  fold_right (fun '(p, t) acc => (if Rle_dec eps t then p * (1 - exp (eps - t)) else 0) + acc)%R 0%R pt.
Theorem delta_est_antitone (pt : list (R * R)) (e e' : R) :
  Forall (fun '(p, _) => (0 <= p)%R) pt -> (e <= e')%R -> (delta_est pt e' <= delta_est pt e)%R.
Proof.
  intros Hp He. induction Hp as [|[p t] pt Hp0 _ IH]; cbn; [lra|].
  apply Rplus_le_compat; [|exact IH].
  destruct (Rle_dec e' t) as [H1|H1], (Rle_dec e t) as [H2|H2]; try lra.
  - apply Rmult_le_compat_l; [exact Hp0|]. apply Rplus_le_compat_l, Ropp_le_contravar.
    destruct (Req_dec e e') as [->|Hne]; [lra|]. left. apply exp_increasing. lra.
  - apply Rmult_le_pos; [exact Hp0|]. assert (exp (e - t) <= 1)%R; [|lra].
    rewrite <- exp_0. destruct (Req_dec (e - t) 0) as [->|Hne]; [lra|]. left. apply exp_increasing. lra.
Qed.

(* ---------- the convolution tree composes ALL the PRVs of a heterogeneous history (generated tree_level / tree_compose) ---------- *)
Section Tree.
Variable A : Type.
Variable op : A -> A -> A.
Variable e : A.
Hypothesis op_assoc : forall a b c, op a (op b c) = op (op a b) c.
Hypothesis op_comm : forall a b, op a b = op b a.
Hypothesis op_unit : forall a, op a e = a.
Definition tprod (l : list A) : A := fold_right op e l.
Lemma tprod_app l1 l2 : tprod (l1 ++ l2) = op (tprod l1) (tprod l2).
Proof.
  induction l1 as [|a l1 IH]; [cbn; rewrite op_comm; now rewrite op_unit|].
  change (tprod ((a :: l1) ++ l2)) with (op a (tprod (l1 ++ l2))). rewrite IH. change (tprod (a :: l1)) with (op a (tprod l1)). apply op_assoc.
Qed.
Lemma list_ind2 (P : list A -> Prop) : P [] -> (forall a, P [a]) -> (forall a b l, P l -> P (a :: b :: l)) -> forall l, P l.
Proof.
  intros H0 H1 H2. assert (G : forall l, P l /\ forall a, P (a :: l)).
  { induction l as [|x l [IHa IHb]]; [split; auto|]. split; [apply IHb|]. intros a. apply H2. exact IHa. }
  intros l. apply G.
Qed.
Lemma pairs_even l : Nat.even (length l) = true -> tprod (tree_pairs op l) = tprod l.
Proof.
  induction l as [| a | a b l IH] using list_ind2; intros H; [reflexivity|discriminate|].
  change (tprod (tree_pairs op (a :: b :: l))) with (op (op a b) (tprod (tree_pairs op l))).
  change (tprod (a :: b :: l)) with (op a (op b (tprod l))). rewrite (IH H). symmetry. apply op_assoc.
Qed.
Lemma pairs_length l : length (tree_pairs op l) = Nat.div2 (length l).
Proof. induction l as [| a | a b l IH] using list_ind2; [reflexivity|reflexivity|]. cbn. now rewrite IH. Qed.
Lemma rev_last_split (l : list A) : l <> [] -> exists l' x, l = l' ++ [x] /\ rev l = x :: rev l' /\ removelast l = l'.
Proof.
  intros H. destruct (exists_last H) as [l' [x E]]. exists l', x. subst l. repeat split.
  - rewrite rev_app_distr. reflexivity.
  - apply removelast_last.
Qed.
Lemma level_prod l : tprod (tree_level op l) = tprod l.
Proof.
  unfold tree_level. destruct (Nat.odd (length l)) eqn:E.
  - destruct l as [|a l0]; [discriminate|]. destruct (rev_last_split (a :: l0) ltac:(discriminate)) as [l' [x [El [Er Erm]]]].
    rewrite Er, Erm, El. rewrite !tprod_app. change (tprod [x]) with (op x e). rewrite op_unit.
    rewrite pairs_even; [apply op_comm|].
    rewrite El in E. rewrite app_length in E. cbn in E. rewrite Nat.add_1_r, Nat.odd_succ in E. exact E.
  - apply pairs_even. unfold Nat.odd in E. now apply negb_false_iff in E.
Qed.
Lemma div2_lt n : (1 <= n)%nat -> (Nat.div2 n < n)%nat.
Proof. intros H. apply Nat.lt_div2. lia. Qed.
Lemma level_length l : (2 <= length l)%nat -> (1 <= length (tree_level op l) /\ length (tree_level op l) < length l)%nat.
Proof.
  intros H. unfold tree_level. destruct (Nat.odd (length l)) eqn:E.
  - destruct l as [|a l0]; [cbn in H; lia|]. destruct (rev_last_split (a :: l0) ltac:(discriminate)) as [l' [x [El [Er Erm]]]].
    rewrite Er, Erm. cbn [app]. change (length (x :: tree_pairs op l')) with (S (length (tree_pairs op l'))). rewrite pairs_length.
    assert (HL : length (a :: l0) = S (length l')) by (rewrite El, app_length; cbn; lia).
    rewrite HL in *. assert (1 <= length l')%nat by lia. pose proof (div2_lt (length l') ltac:(lia)). lia.
  - rewrite pairs_length. pose proof (div2_lt (length l) ltac:(lia)).
    destruct (length l) as [|[|n]] eqn:L; [lia|lia|]. cbn [Nat.div2]. split; [lia|]. cbn [Nat.div2] in H0. exact H0.
Qed.
(* for every number of PRVs (every tree shape), with enough fuel, the tree returns the composition of ALL of them *)
Theorem tree_composes_all (fuel : nat) (l : list A) : l <> [] -> (length l <= fuel)%nat -> tree_compose op fuel l = Some (tprod l).
Proof.
  revert l. induction fuel as [|f IH]; intros l Hne Hl; [destruct l; [contradiction|cbn in Hl; lia]|].
  destruct l as [|a [|b r]]; [contradiction| |].
  - cbn. now rewrite op_unit.
  - cbn [tree_compose]. destruct (level_length (a :: b :: r) ltac:(cbn; lia)) as [L1 L2].
    rewrite IH; [now rewrite level_prod| |lia].
    intros E. rewrite E in L1. cbn in L1. lia.
Qed.
End Tree.
