(* Exec/RunGhost.v -- the ghost-norm formulas on integer tensors (Tie B, C02): tensors as nested lists *)
From Coq Require Import ZArith List.
From OV Require Import Base.Num Base.NumZ Model.GhostNorm.
Import ListNotations.
Definition at2 (m : list (list Z)) (t i : nat) : Z := nth i (nth t m []) 0%Z.
(* case: (L, p, q, g, a, expected [weight_sq; bias_sq; true_weight_sq; true_bias_sq]) *)
Definition ghost_case (c : nat * nat * nat * list (list Z) * list (list Z)) : list Z :=
  let '(L, p, q, g, a) := c in
  [ghost_sq_weight_3d L p q (at2 g) (at2 a); ghost_sq_bias_3d L p (at2 g);
   true_norm_sq_weight L p q (at2 g) (at2 a); true_norm_sq_bias L p (at2 g)].
Fixpoint bad_ghost (i : nat) (cs : list (nat * nat * nat * list (list Z) * list (list Z) * list Z)) : list nat :=
  match cs with
  | [] => []
  | (c, want) :: r => (if list_eq_dec Z.eq_dec (ghost_case c) want then [] else [i]) ++ bad_ghost (S i) r
  end.

(* nn.Embedding: case (pad, V, L, D, ids, g) -> [ghost_sq; true_sq] on Z *)
Definition emb_case (c : option nat * nat * nat * nat * list nat * list (list Z)) : list Z :=
  let '(pad, V, L, D, ids, g) := c in
  [ghost_sq_embedding (fun _ => 1%Z) pad L D (fun t => nth t ids O) (at2 g); true_norm_sq_embedding (fun _ => 1%Z) pad V L D (fun t => nth t ids O) (at2 g)].
Fixpoint bad_emb (i : nat) (cs : list (option nat * nat * nat * nat * list nat * list (list Z) * list Z)) : list nat :=
  match cs with
  | [] => []
  | (c, want) :: r => (if list_eq_dec Z.eq_dec (emb_case c) want then [] else [i]) ++ bad_emb (S i) r
  end.
