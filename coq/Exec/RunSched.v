(* Exec/RunSched.v -- executable runner of the generated scheduler code on binary64 (Tie B, C17/C16). *)
From Coq Require Import ZArith List Bool Floats.PrimFloat.
From OV Require Import Base.Num Base.NumF Base.Py Model.SchedState Gen.Sched.
Import ListNotations.

Definition lamf (id k : Z) : float :=
  match id with
  | 0%Z => ndiv (nofZ 1) (nofZ (1 + k))
  | 1%Z => nadd (nmul (nofdec 5 (-1)) (nofZ k)) (nofZ 1)
  | _ => nsub (nofZ 1) (ndiv (nofZ k) (nofZ 10))
  end.
Inductive sop := S_ | O_ | R_.
Record scase := mkcase { c_noise : bool; c_kind : Z; c_init : float; c_gamma : float; c_ssz : Z;
                         c_lam : Z; c_ops : list sop; c_expect : list float }.
Definition blank : ss float := mkss 0%Z n0 0%Z n0 (fun _ => n0) n0.
Definition construct (c : scase) : sres (ss float) unit :=
  if c_noise c then
    match c_kind c with
    | 0%Z => noise_exp_init blank (c_init c) (c_gamma c) (-1)
    | 1%Z => noise_stepc_init blank (c_init c) (c_ssz c) (c_gamma c) (-1)
    | _ => noise_lambda_init blank (c_init c) (lamf (c_lam c)) (-1)
    end
  else
    match c_kind c with
    | 0%Z => clip_exp_init blank (c_init c) (c_gamma c) (-1)
    | 1%Z => clip_stepc_init blank (c_init c) (c_ssz c) (c_gamma c) (-1)
    | _ => clip_lambda_init blank (c_init c) (lamf (c_lam c)) (-1)
    end.
Definition stepf (c : scase) : ss float -> sres (ss float) unit :=
  if c_noise c then
    noise_step (match c_kind c with 0%Z => noise_exp_get | 1%Z => noise_step_get | _ => noise_lambda_get end)
  else
    clip_step (match c_kind c with 0%Z => clip_exp_get | 1%Z => clip_step_get | _ => clip_lambda_get end).
Definition ofs {A} (r : sres (ss float) A) : result (ss float) :=
  match r with SOk s _ => Ok s | SErr _ e => Err e end.
Definition restore (c : scase) (s : ss float) : result (ss float) :=
  bind (ofs (construct c)) (fun fresh =>
    Ok (if c_noise c then noise_load_state_dict fresh (noise_state_dict s)
        else clip_load_state_dict fresh (clip_state_dict s))).
Fixpoint runops (c : scase) (ops : list sop) (s : ss float) : result (list float) :=
  match ops with
  | [] => Ok []
  | o :: r =>
      bind (match o with S_ => ofs (stepf c s) | O_ => Ok s | R_ => restore c s end)
           (fun s' => bind (runops c r s') (fun l => Ok (f_oval s' :: l)))
  end.
Definition traj (c : scase) : result (list float) :=
  bind (ofs (construct c)) (fun s => bind (runops c (c_ops c) s) (fun l => Ok (f_oval s :: l))).
Fixpoint feq_list (a b : list float) : bool :=
  match a, b with [], [] => true | x :: a', y :: b' => PrimFloat.eqb x y && feq_list a' b' | _, _ => false end.
Definition case_ok (c : scase) : bool :=
  match traj c with Ok l => feq_list l (c_expect c) | Err _ => false end.
Fixpoint bad_indices (i : nat) (cs : list scase) : list nat :=
  match cs with [] => [] | c :: r => (if case_ok c then [] else [i]) ++ bad_indices (S i) r end.
