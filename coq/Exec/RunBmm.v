(* Exec/RunBmm.v -- executable observation of the generated batch-splitting sampler body (Tie B, C10). *)
From Coq Require Import ZArith List Bool.
From OV Require Import Base.Num Base.Py Model.BmmState Gen.Bmm.
Import ListNotations.
Definition run_batches (mx : Z) (batches : list (list Z)) : bst :=
  fold_left (fun s b => sstate (bmm_one_batch s b)) batches (mkbst mx []).
Definition encode (e : bev) : list Z :=
  match e with BSignal b => [0; if b then 1 else 0]%Z | BYield l => (1 :: Z.of_nat (length l) :: l)%Z end.
Definition obs (mx : Z) (batches : list (list Z)) : list Z := flat_map encode (b_out (run_batches mx batches)).
Fixpoint bad_bmm (i : nat) (cs : list (Z * list (list Z) * list Z)) : list nat :=
  match cs with
  | [] => []
  | (mx, bs, want) :: r => (if list_eq_dec Z.eq_dec (obs mx bs) want then [] else [i]) ++ bad_bmm (S i) r
  end.
