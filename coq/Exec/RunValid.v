(* Exec/RunValid.v -- the generated validate / fix walk on module trees vs the real ModuleValidator (Tie B, C15).
   case: (tree, root in training mode, replace_bn_with_in, #errors of validate, #errors of validate(fix), #modules replaced by fix) *)
From Coq Require Import ZArith List Bool.
From OV Require Import Base.Py Model.ModTree Gen.Validators.
Import ListNotations.
Definition set_training (t : tree) (b : bool) : tree := match t with Node k tr hp tk _ ch => Node k tr hp tk b ch end.
Definition valid_case_ok (c : tree * bool * bool * nat * nat * nat) : bool :=
  let '(t, tg, rb, nerr, nfix, nrep) := c in
  let t := if tg then t else set_training t false in
  Nat.eqb (validate t) nerr && Nat.eqb (validate (fixt rb t)) nfix && Nat.eqb (nreplaced t) nrep.
Fixpoint bad_valid (i : nat) (cs : list (tree * bool * bool * nat * nat * nat)) : list nat :=
  match cs with [] => [] | c :: r => (if valid_case_ok c then [] else [i]) ++ bad_valid (S i) r end.
