(* Exec/RunDist.v -- the generated distributed release on binary64 vs the real gloo runs (Tie B, C18).
   case: (kind, mean, B, per-rank sums S_w of one component, noise z of rank 0, observed gradient on the ranks)
   kind 0: DistributedDPOptimizer / SimpleDistributedPerLayerOptimizer (the ddp functions)   kind 1: ghost (the ddpfgc functions)
   kind 2: DistributedPerLayerOptimizer with torch DDP (observed accumulate-twice-and-average, see Proofs/DistR.v) *)
From Coq Require Import ZArith List Bool Floats.PrimFloat.
From OV Require Import Base.Num Base.NumF Base.Py Gen.Dist.
Import ListNotations.
Definition ranksZ (n : nat) : list Z := map Z.of_nat (seq 0 n).
Definition dist_model (kind : Z) (mean : bool) (B : float) (Ss : list float) (z : float) : float :=
  let W := Z.of_nat (length Ss) in
  let rs := combine (ranksZ (length Ss)) Ss in
  let ebs := ndiv B (nofZ W) in
  if (kind =? 0)%Z then ddp_reduce mean W (map (fun p => opt_scale mean (ddp_noised (fst p) (snd p) z) ebs 1) rs)
  else if (kind =? 1)%Z then ddpfgc_reduce mean W (map (fun p => opt_scale mean (ddpfgc_noised (fst p) (snd p) z) ebs 1) rs)
  else ndiv (nsum (map (fun p => nmul (fz 2) (dpl_scale mean (dpl_noised (fst p) (snd p) z) ebs 1 W)) rs)) (nofZ W).
Definition dist_case_ok (c : Z * bool * float * list float * float * float) : bool :=
  let '(kind, mean, B, Ss, z, want) := c in fclose (fdec 1 (-11)) (dist_model kind mean B Ss z) want.
Fixpoint bad_dist (i : nat) (cs : list (Z * bool * float * list float * float * float)) : list nat :=
  match cs with [] => [] | c :: r => (if dist_case_ok c then [] else [i]) ++ bad_dist (S i) r end.
