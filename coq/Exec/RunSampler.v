(* Exec/RunSampler.v -- the sampler model on binary64 values standing for float32 uniforms (Tie B, C09) *)
From Coq Require Import ZArith List Bool Floats.PrimFloat.
From OV Require Import Base.Num Base.NumF Base.Py Model.Sampler.
Import ListNotations.
Definition zll_eqb (a b : list (list Z)) : bool := if list_eq_dec (list_eq_dec Z.eq_dec) a b then true else false.
(* uniform: (q32, rows, expected batches) *)
Definition uni_ok (c : float * list (list float) * list (list Z)) : bool :=
  let '(q, rows, want) := c in
  zll_eqb (sampler_epoch (Z.of_nat (length rows)) q (fun b => nth (Z.to_nat b) rows [])) want.
(* distributed: (q32, rank, W, N, rows, expected) with perm = 0..N-1 *)
Definition dist_ok (c : float * nat * nat * Z * list (list float) * list (list Z)) : bool :=
  let '(q, rank, W, N, rows, want) := c in
  zll_eqb (dist_sampler_epoch (Z.of_nat (length rows)) q rank W (zrange 0 N) (fun b => nth (Z.to_nat b) rows []) (-1)%Z) want.
Fixpoint bad_of {A} (f : A -> bool) (i : nat) (cs : list A) : list nat :=
  match cs with [] => [] | c :: r => (if f c then [] else [i]) ++ bad_of f (S i) r end.
