(* Exec/RunClip.v -- the generated clip factor and joint norm on binary64 vs torch (Tie B, C02/C03) *)
From Coq Require Import ZArith List Bool Floats.PrimFloat.
From OV Require Import Base.Num Base.NumF Base.Py Model.OptimState Gen.Optim Gen.Ghost Model.ClipNum.
Import ListNotations.
(* case: C, per-sample gradient (list of per-parameter vectors), torch's clip factor(s), per_layer? *)
Definition clip_case_ok (c : float * list (list float) * list float * bool) : bool :=
  let '(C, g, want, perlayer) := c in
  let tol := fdec 1 (-11) in
  if perlayer then
    forallb (fun p => fclose tol (pl_clip_factor C (nnorm2 (fst p))) (snd p)) (combine g want)
  else
    let f := clip_factor C (joint_norm g) in
    forallb (fun w => fclose tol f w && fclose tol (ghost_clip_coef C (joint_norm g)) w && fclose tol (ada_clip_factor C (joint_norm g)) w) want.
Fixpoint bad_clip (i : nat) (cs : list (float * list (list float) * list float * bool)) : list nat :=
  match cs with [] => [] | c :: r => (if clip_case_ok c then [] else [i]) ++ bad_clip (S i) r end.
