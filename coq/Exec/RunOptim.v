(* Exec/RunOptim.v -- executable observation of the optimizer state machine (Tie B for C05 C10 C11 C04):
   per op: exception kind (0 = none) and, if the inner optimizer stepped, the released keys. *)
From Coq Require Import ZArith List Bool.
From OV Require Import Base.Num Base.NumZ Base.Py Model.OptimState Gen.Optim Proofs.OptimSM.
Import ListNotations.

Definition errcode (e : err) : Z :=
  match e with ValueError => 1 | NotImplementedError => 2 | IndexError => 3 | AssertionError => 4 | TypeError => 5
             | RuntimeError => 6 | KeyError => 7 | OutOfFuel => 8 | AttributeError => 9 | UnsupportedModuleError => 10 end%Z.
(* observation of one op: (error code, number of new EInner events, released sample ids of those,
   number of new noise events, number of new EAccount events) *)
Definition new_events (s s' : ost Z) : list (event Z) := skipn (length (o_events s)) (o_events s').
Definition ev_inner (e : event Z) : list Z :=
  match e with EInner (Some g) => map (fun it => snd (fst it)) (grad_items g) | _ => [] end.
Definition is_inner (e : event Z) := match e with EInner _ => true | _ => false end.
Definition is_noise (e : event Z) := match e with ENoise _ _ => true | _ => false end.
Definition is_acc (e : event Z) := match e with EAccount _ _ => true | _ => false end.
Definition cnt (f : event Z -> bool) (l : list (event Z)) := Z.of_nat (length (filter f l)).
Definition obs1 (s : ost Z) (o : op) : ost Z * list Z :=
  let r := exec s o in
  let s' := sstate r in
  let evs := new_events s s' in
  (s', [match r with SOk _ _ => 0%Z | SErr _ e => errcode e end; cnt is_inner evs; cnt is_noise evs; cnt is_acc evs]
        ++ flat_map ev_inner evs).
Fixpoint observe (s : ost Z) (ops : list op) : list (list Z) :=
  match ops with [] => [] | o :: r => let '(s', ob) := obs1 s o in ob :: observe s' r end.
(* history as flat list sigma, q, n, ... *)
Definition hist_flat (s : ost Z) : list Z := flat_map (fun '(a, b, n) => [a; b; n]) (o_hist s).
Definition run_case (v : variant) (a : acckind) (accum : bool) (nm : Z) (ops : list op) : list (list Z) :=
  let s0 := init_state v a nm 10%Z 1%Z 1%Z false false accum in
  observe s0 ops ++ [hist_flat (run ops s0)].
Fixpoint lleq (a b : list (list Z)) : bool :=
  match a, b with
  | [], [] => true
  | x :: a', y :: b' => (if list_eq_dec Z.eq_dec x y then true else false) && lleq a' b'
  | _, _ => false
  end.
Fixpoint bad_idx (i : nat) (cs : list (variant * acckind * bool * Z * list op * list (list Z))) : list nat :=
  match cs with
  | [] => []
  | (v, a, ac, nm, ops, want) :: r => (if lleq (run_case v a ac nm ops) want then [] else [i]) ++ bad_idx (S i) r
  end.
Fixpoint zinsert (x : Z) (l : list Z) : list Z :=
  match l with [] => [x] | y :: r => if (x <=? y)%Z then x :: l else y :: zinsert x r end.
Definition zsort (l : list Z) : list Z := fold_right zinsert [] l.
(* canonical observation: the released ids sorted (the implementation side decodes a multiset) *)
Definition canon (ob : list Z) : list Z := firstn 4 ob ++ zsort (skipn 4 ob).
Definition run_case_c (v : variant) (a : acckind) (accum secure : bool) (nm : Z) (ops : list op) : list (list Z) :=
  let s0 := init_state v a nm 10%Z 1%Z 1%Z false secure accum in
  map canon (observe s0 ops) ++ [hist_flat (run ops s0)].
Fixpoint bad_idx_c (i : nat) (cs : list (variant * acckind * bool * bool * Z * list op * list (list Z))) : list nat :=
  match cs with
  | [] => []
  | (v, a, ac, sec, nm, ops, want) :: r => (if lleq (run_case_c v a ac sec nm ops) want then [] else [i]) ++ bad_idx_c (S i) r
  end.
