(* Exec/RunRnn.v -- the per-sequence recurrence (spec) in time-major packed form on Z, with the integer cell  cell x h = x + 2 h,
   vs the real DPRNNBase.forward_layer run with the same integer cell on a PackedSequence (Tie B, C13).
   case: rows (length-sorted sequences), initial states, forward outputs per time step, forward last states, reverse outputs per time step,
   reverse last states -- as returned by the real code *)
From Coq Require Import ZArith List Bool.
From OV Require Import Gen.Rnn Proofs.RnnP.
Import ListNotations.
Definition zcell (x h : Z) : Z := (x + 2 * h)%Z.
Definition fuel_of (rows : list (list Z)) : nat := fold_right (fun r a => Nat.max (length r) a) 0 rows.
Definition zlist_eqb (a b : list Z) : bool := (Nat.eqb (length a) (length b)) && forallb (fun p => Z.eqb (fst p) (snd p)) (combine a b).
Definition zll_eqb (a b : list (list Z)) : bool := (Nat.eqb (length a) (length b)) && forallb (fun p => zlist_eqb (fst p) (snd p)) (combine a b).
Definition last_or (h : Z) (l : list Z) : Z := last l h.
Definition rnn_case_ok (c : list (list Z) * list Z * list (list Z) * list Z * list (list Z) * list Z) : bool :=
  let '(rows, h0, fo, fl, ro, rl) := c in
  let f := fuel_of rows in
  let fwd := scans zcell h0 rows in
  let rev_rows := map2 (fun r h => rev (scan zcell h (rev r))) rows h0 in
  zll_eqb (loop zcell (cols f rows) h0) fo && zll_eqb (cols f fwd) fo &&
  zlist_eqb (map2 (fun s h => last_or h s) fwd h0) fl &&
  zll_eqb (cols f rev_rows) ro && zll_eqb (rev (rloop Z Z zcell h0 (rev (cols f rows)) [])) ro && zlist_eqb (map2 (fun s h => hd h s) rev_rows h0) rl &&
  zlist_eqb (map Z.of_nat (compute_seq_lengths (map (@length Z) (cols f rows)))) (map (fun r => Z.of_nat (length r)) rows).
Fixpoint bad_rnn (i : nat) (cs : list (list (list Z) * list Z * list (list Z) * list Z * list (list Z) * list Z)) : list nat :=
  match cs with [] => [] | c :: r => (if rnn_case_ok c then [] else [i]) ++ bad_rnn (S i) r end.
