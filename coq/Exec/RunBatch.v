(* Exec/RunBatch.v -- Tie B for Model/Batch.empty_like: the real empty_like_batch applied to generated batch structures, encoded as trees,
   vs the model (C09). *)
From Coq Require Import List String Arith Bool.
From OV Require Import Model.Batch.
Import ListNotations.
Fixpoint btree_eqb (a b : btree) : bool :=
  match a, b with
  | BTensor n tr dt, BTensor n' tr' dt' => Nat.eqb n n' && (if list_eq_dec Nat.eq_dec tr tr' then true else false) && Nat.eqb dt dt'
  | BMap kv, BMap kv' =>
      (fix go (l l' : list (string * btree)) : bool :=
         match l, l' with
         | [], [] => true
         | (k, x) :: r, (k', x') :: r' => String.eqb k k' && btree_eqb x x' && go r r'
         | _, _ => false
         end) kv kv'
  | BSeq t l, BSeq t' l' =>
      Nat.eqb t t' && (fix go (l l' : list btree) : bool :=
         match l, l' with
         | [], [] => true
         | x :: r, x' :: r' => btree_eqb x x' && go r r'
         | _, _ => false
         end) l l'
  | BStrs t n, BStrs t' n' => Nat.eqb t t' && Nat.eqb n n'
  | BLeaf t, BLeaf t' => Nat.eqb t t'
  | _, _ => false
  end.
(* case: (batch, what the implementation returned for empty_like_batch(batch)) *)
Fixpoint bad_batch (i : nat) (cs : list (btree * btree)) : list nat :=
  match cs with
  | [] => []
  | (b, e) :: r => (if btree_eqb (empty_like b) e then [] else [i]) ++ bad_batch (S i) r
  end.
