(* Exec/RunGs.v -- the model's per-sample gradient formulas on Z vs the real grad samplers called on small-integer tensors (Tie B, C01).
   linear case:    (T, din, dout, x as rows [t][i], g as rows [t][j], weight grad_sample rows [j][i], bias grad_sample [j])
   embedding case: (pad (-1 = none), T, V, D, idx [t], g rows [t][d], grad_sample rows [v][d]) *)
From Coq Require Import ZArith List Bool.
From OV Require Import Model.Layers.
Import ListNotations.
Definition nthz (l : list Z) (i : nat) : Z := nth i l 0%Z.
Definition nth2 (l : list (list Z)) (i j : nat) : Z := nthz (nth i l []) j.
Definition zlist_eqb (a b : list Z) : bool := Nat.eqb (length a) (length b) && forallb (fun p => Z.eqb (fst p) (snd p)) (combine a b).
Definition zll_eqb (a b : list (list Z)) : bool := Nat.eqb (length a) (length b) && forallb (fun p => zlist_eqb (fst p) (snd p)) (combine a b).
Definition lin_case_ok (c : nat * nat * nat * list (list Z) * list (list Z) * list (list Z) * list Z) : bool :=
  let '(T, din, dout, x, g, gw, gb) := c in
  let xf := nth2 x in let gf := nth2 g in
  zll_eqb (map (fun j => map (fun i => lin_gs_w Z 0%Z Z.add Z.mul T gf xf j i) (seq 0 din)) (seq 0 dout)) gw &&
  zlist_eqb (map (fun j => lin_gs_b Z 0%Z Z.add T gf j) (seq 0 dout)) gb.
Definition emb_case_ok (c : Z * nat * nat * nat * list Z * list (list Z) * list (list Z)) : bool :=
  let '(pad, T, V, D, idx, g, gs) := c in
  let padn := if (pad <? 0)%Z then None else Some (Z.to_nat pad) in
  zll_eqb (map (fun v => map (fun d => emb_gs Z 0%Z Z.add padn T (nth2 g) (fun t => Z.to_nat (nthz idx t)) v d) (seq 0 D)) (seq 0 V)) gs.
(* conv1d case: (P, O, cg = in-channels per group, Kk, og = out-channels per group, stride, dilation, padded input rows [channel][location],
   backprops rows [p][o], weight grad_sample rows [o][c*Kk + k], bias grad_sample [o]) *)
Definition conv_case_ok (c : nat * nat * nat * nat * nat * nat * nat * list (list Z) * list (list Z) * list (list Z) * list Z) : bool :=
  let '(P, Oc, cg, Kk, og, stride, dil, xp, g, gw, gb) := c in
  let chan := fun o ch => (o / og) * cg + ch in
  let src := fun p k => p * stride + k * dil in
  zll_eqb (map (fun o => flat_map (fun ch => map (fun k => conv_gs_w Z 0%Z Z.add Z.mul P chan src (nth2 g) (nth2 xp) o ch k) (seq 0 Kk)) (seq 0 cg)) (seq 0 Oc)) gw &&
  zlist_eqb (map (fun o => conv_gs_b Z 0%Z Z.add P (nth2 g) o) (seq 0 Oc)) gb.
(* conv2d case: (Ph, Pw, O, cg, Kh, Kw, og, (sh, sw), (dh, dw), Wp = width of the padded input, padded input rows [channel][h * Wp + w],
   backprops rows [ph * Pw + pw][o], weight grad_sample rows [o][(c * Kh + kh) * Kw + kw], bias grad_sample [o]) *)
Definition conv2_case_ok (c : nat * nat * nat * nat * nat * nat * nat * (nat * nat) * (nat * nat) * nat * list (list Z) * list (list Z) * list (list Z) * list Z) : bool :=
  let '(Ph, Pw, Oc, cg, Kh, Kw, og, st, dl, Wp, xp, g, gw, gb) := c in
  let chan := fun o ch => (o / og) * cg + ch in
  let src := fun p k => ((p / Pw) * fst st + (k / Kw) * fst dl) * Wp + ((p mod Pw) * snd st + (k mod Kw) * snd dl) in
  zll_eqb (map (fun o => flat_map (fun ch => map (fun k => conv_gs_w Z 0%Z Z.add Z.mul (Ph * Pw) chan src (nth2 g) (nth2 xp) o ch k) (seq 0 (Kh * Kw))) (seq 0 cg)) (seq 0 Oc)) gw &&
  zlist_eqb (map (fun o => conv_gs_b Z 0%Z Z.add (Ph * Pw) (nth2 g) o) (seq 0 Oc)) gb.
(* EmbeddingBag case, one bag: (pad (-1 = none), T, V, D, idx [t], backprop [d], grad_sample rows [v][d] multiplied by the number of
   non-padding entries for mode mean -- i.e. compared with the model at s = 1) *)
Definition bag_case_ok (c : Z * nat * nat * nat * list Z * list Z * list (list Z)) : bool :=
  let '(pad, T, V, D, idx, gb, gs) := c in
  let padn := if (pad <? 0)%Z then None else Some (Z.to_nat pad) in
  zll_eqb (map (fun v => map (fun d => bag_gs Z 0%Z Z.add Z.mul padn 1%Z T (nthz gb) (fun t => Z.to_nat (nthz idx t)) v d) (seq 0 D)) (seq 0 V)) gs.
Fixpoint bad_idx {A} (ok : A -> bool) (i : nat) (cs : list A) : list nat :=
  match cs with [] => [] | c :: r => (if ok c then [] else [i]) ++ bad_idx ok (S i) r end.
