(* Exec/RunCalib.v -- the generated search on binary64 with the synthetic accountant eps(sigma) = a / (sigma * sigma) + b / sigma (Tie B, C08) *)
From Coq Require Import ZArith List Bool Floats.PrimFloat.
From OV Require Import Base.Num Base.NumF Base.Py Gen.Calib.
Import ListNotations.
Definition eps_syn (a b sigma : float) : float := PrimFloat.add (PrimFloat.div a (PrimFloat.mul sigma sigma)) (PrimFloat.div b sigma).
Definition calib_ok (c : float * float * float * float * float) : bool :=
  let '(a, b, target, tol, want) := c in
  match calib_search infinity (eps_syn a b) 400 target tol with
  | Ok s => PrimFloat.eqb s want
  | Err _ => PrimFloat.ltb want (fz 0)          (* the implementation raised: encoded as -1 *)
  end.
Fixpoint bad_calib (i : nat) (cs : list (float * float * float * float * float)) : list nat :=
  match cs with [] => [] | c :: r => (if calib_ok c then [] else [i]) ++ bad_calib (S i) r end.
