"""C09: an empty Poisson draw is delivered as a batch that CONTAINS dataset[0] when the
collate function returns anything empty_like_batch() does not recognise.

DPDataLoader builds the empty batch as empty_like_batch(collate_fn([dataset[0]])); the
last line of empty_like_batch is `return batch`, so every leaf that is not a tensor / str
is passed through unchanged.  Affected (all legal collate results):
  * a custom batch class (the pattern from the torch DataLoader docs, `SimpleCustomBatch`),
    a dataclass batch
  * numpy arrays
  * per-sample python lists of numbers (e.g. `lengths` for pack_padded_sequence)
For these the "empty" batch is the one-sample batch made of dataset[0]: sample 0 is trained
on in every step whose draw is empty (inclusion probability q + (1-q)^N instead of q), and
nothing of length zero is delivered.  Mapping subclasses additionally lose their type.
"""
import sys
import warnings
from dataclasses import dataclass

import numpy as np
import torch
from torch.utils.data import DataLoader, Dataset

warnings.simplefilter("ignore")
from opacus.data_loader import DPDataLoader

N = 6
LOG = []


class DS(Dataset):
    def __len__(self):
        return N

    def __getitem__(self, i):
        LOG.append(int(i))  # which indices the loader really fetched for the current batch
        return torch.full((3,), float(i + 100)), i % 2


class SimpleCustomBatch:  # https://pytorch.org/docs/stable/data.html#memory-pinning
    def __init__(self, data):
        transposed = list(zip(*data))
        self.inp = torch.stack(transposed[0], 0)
        self.tgt = torch.tensor(transposed[1])

    def pin_memory(self):
        self.inp = self.inp.pin_memory()
        self.tgt = self.tgt.pin_memory()
        return self


@dataclass
class DCBatch:
    inp: torch.Tensor
    tgt: torch.Tensor


def collate_class(b):
    return SimpleCustomBatch(b)


def collate_dataclass(b):
    return DCBatch(torch.stack([x for x, _ in b]), torch.tensor([y for _, y in b]))


def collate_numpy(b):
    return np.stack([x.numpy() for x, _ in b]), np.array([y for _, y in b])


def collate_lengths(b):  # padded batch + python list of per-sample lengths
    return torch.stack([x for x, _ in b]), [len(x) for x, _ in b]


def batch_len(batch):
    if isinstance(batch, (SimpleCustomBatch, DCBatch)):
        return len(batch.inp), len(batch.tgt), batch.inp
    return len(batch[0]), len(batch[1]), batch[0]


bad = []
for name, fn in [
    ("custom class", collate_class),
    ("dataclass", collate_dataclass),
    ("numpy", collate_numpy),
    ("tensor + list of lengths", collate_lengths),
]:
    dl = DataLoader(DS(), batch_size=1, collate_fn=fn)  # q = 1/6, P(empty) = (5/6)^6 = 0.33
    dp = DPDataLoader.from_data_loader(dl, generator=torch.Generator().manual_seed(3))
    drawn, got = [], []
    LOG.clear()
    for epoch in range(5):
        for b in dp:
            drawn.append(list(LOG))  # indices fetched for this batch == the Poisson draw
            LOG.clear()
            got.append(batch_len(b))
    assert len(got) == len(drawn) == 5 * len(dl)
    for ix, (n0, n1, first) in zip(drawn, got):
        if (n0, n1) != (len(ix), len(ix)):
            msg = f"[{name}] drawn indices {ix} -> delivered batch with lengths ({n0}, {n1}); first field = {np.asarray(first).tolist()}"
            print("VIOLATION", msg)
            bad.append(msg)
    if not any(len(ix) == 0 for ix in drawn):
        print(f"[{name}] no empty draw with this seed")

if bad:
    sys.exit(1)
print("ok")
sys.exit(0)
