"""C09: empty batches are not "of the right type" when the collate function returns a
Mapping subclass (transformers.BatchEncoding / BatchFeature are UserDict subclasses with
.to(device) and attribute access; here a minimal stand-in).  empty_like_batch rebuilds every
Mapping as a plain dict, so the usual `batch = batch.to(device)` works on every non-empty
batch and raises AttributeError in the middle of training on the first empty draw.
"""
import collections
import sys
import warnings

import torch
from torch.utils.data import DataLoader, Dataset

warnings.simplefilter("ignore")
from opacus.data_loader import DPDataLoader


class Encoding(collections.UserDict):
    def to(self, device):
        return Encoding({k: v.to(device) for k, v in self.items()})


class DS(Dataset):
    def __len__(self):
        return 4

    def __getitem__(self, i):
        return torch.full((3,), float(i)), i % 2


def collate(b):
    return Encoding({"input_ids": torch.stack([x for x, _ in b]), "labels": torch.tensor([y for _, y in b])})


dl = DataLoader(DS(), batch_size=1, collate_fn=collate)
dp = DPDataLoader.from_data_loader(dl, generator=torch.Generator().manual_seed(0))
bad = []
for epoch in range(5):
    for batch in dp:
        n = len(batch["labels"])
        if not isinstance(batch, Encoding):
            bad.append((n, type(batch).__name__))
            try:
                batch.to("cpu")
            except AttributeError as e:
                print(f"batch of length {n} delivered as {type(batch).__name__} instead of Encoding: {e}")
if bad:
    print("VIOLATIONS:", bad)
    sys.exit(1)
print("ok")
sys.exit(0)
