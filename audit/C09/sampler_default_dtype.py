"""C09: the Poisson mask is drawn with torch.rand(N) in the *default dtype*.

torch.set_default_dtype(torch.bfloat16 / torch.float16) is legal (and common in LLM
code).  torch.rand then returns multiples of 2^-8 (bf16) / 2^-11 (fp16), so
P(rand < q) is q rounded UP to that grid: for q = 1/1000 every example is included
about 3x (bf16) / 1.25x (fp16) as often as the rate 1/len(loader) that the engine hands
to the accountant.  Inclusion probability must be q whatever the default dtype is.
"""
import sys
import warnings

import torch
from torch import nn
from torch.utils.data import DataLoader, TensorDataset

warnings.simplefilter("ignore")
from opacus import PrivacyEngine

bad = []
N, B = 20000, 20  # L = 1000, q = 0.001
EPOCH_STEPS = 200  # only look at the first 200 batches of an epoch

for dt in [torch.float32, torch.float64, torch.float16, torch.bfloat16]:
    torch.set_default_dtype(dt)
    torch.manual_seed(0)
    ds = TensorDataset(torch.zeros(N, 1), torch.zeros(N, dtype=torch.long))
    dl = DataLoader(ds, batch_size=B)
    model = nn.Linear(1, 2)
    opt = torch.optim.SGD(model.parameters(), lr=0.1)
    eng = PrivacyEngine(accountant="rdp")
    m, o, dpl = eng.make_private(
        module=model, optimizer=opt, data_loader=dl, noise_multiplier=1.0, max_grad_norm=1.0
    )
    q = 1 / len(dl)
    assert dpl.sample_rate == q
    tot = 0
    for k, idx in enumerate(dpl.batch_sampler):
        if k == EPOCH_STEPS:
            break
        tot += len(idx)
    trials = EPOCH_STEPS * N
    rate = tot / trials
    sd = (q * (1 - q) / trials) ** 0.5
    z = (rate - q) / sd
    status = "ok" if abs(z) < 6 else "VIOLATION"
    print(f"default dtype {dt}: accounted q={q:.6f}, empirical inclusion rate={rate:.6f} (z={z:+.1f}, ratio {rate/q:.2f})  {status}")
    if abs(z) >= 6:
        bad.append((str(dt), rate, q))
torch.set_default_dtype(torch.float32)

if bad:
    print("VIOLATIONS:", bad)
    sys.exit(1)
sys.exit(0)
