"""C09: in distributed mode the workers' Poisson masks are not independent when the
workers share a seed (torch.manual_seed(s) on every rank -- what opacus' own multigpu
tests do -- or DataLoader(generator=torch.Generator().manual_seed(s)), the usual way to
make a run reproducible; torch's DistributedSampler even *requires* equal seeds).

Every rank draws torch.rand(len(shard), generator) < q from an identically seeded stream and
applies it to its own shard indices[rank::world], so the example at shard position j on
rank 0 is included in a step if and only if the example at position j on rank 1 is.  The
shard assignment is the same in every epoch (set_epoch is never called), so the same
pairs of examples always travel together: inclusion of an index is a deterministic
function of the inclusion of another index instead of independent of it.
"""
import os
import sys
import tempfile
import warnings

import torch
import torch.distributed as dist
import torch.multiprocessing as mp
from torch.utils.data import DataLoader, TensorDataset

N, B, WORLD, EPOCHS = 400, 40, 2, 20


def run(rank, world, d, variant):
    warnings.simplefilter("ignore")
    dist.init_process_group(
        "gloo", store=dist.FileStore(os.path.join(d, "store_" + variant), world), rank=rank, world_size=world
    )
    from opacus.data_loader import DPDataLoader

    ds = TensorDataset(torch.arange(N))
    if variant == "global_seed":
        torch.manual_seed(1234)  # same on every rank
        dl = DataLoader(ds, batch_size=B // world)
    else:
        torch.manual_seed(1000 + rank)  # global seeds differ ...
        dl = DataLoader(ds, batch_size=B // world, generator=torch.Generator().manual_seed(7))  # ... loader seed is shared
    dp = DPDataLoader.from_data_loader(dl, distributed=True)
    inc = []
    for _ in range(EPOCHS):
        steps = 0
        for (x,) in dp:
            row = torch.zeros(N, dtype=torch.bool)
            row[x] = True
            inc.append(row)
            steps += 1
        assert steps == len(dl)
    torch.save(torch.stack(inc), os.path.join(d, f"{variant}_{rank}.pt"))
    dist.barrier()
    dist.destroy_process_group()


if __name__ == "__main__":
    bad = []
    d = tempfile.mkdtemp()
    for variant in ["global_seed", "loader_generator"]:
        mp.spawn(run, args=(WORLD, d, variant), nprocs=WORLD)
        inc = [torch.load(os.path.join(d, f"{variant}_{r}.pt")) for r in range(WORLD)]
        shard = [m.any(0).nonzero().reshape(-1) for m in inc]  # indices ever seen on each rank
        disjoint = len(set(shard[0].tolist()) & set(shard[1].tolist())) == 0
        # shards as the sampler builds them
        perm = torch.randperm(N, generator=torch.Generator().manual_seed(0))
        s0, s1 = perm[0::2], perm[1::2]
        a = inc[0][:, s0].float()  # steps x positions : inclusion of rank-0 example at position j
        b = inc[1][:, s1].float()  # inclusion of rank-1 example at the same position j
        same = (a == b).float().mean().item()
        corr = torch.corrcoef(torch.stack([a.reshape(-1), b.reshape(-1)]))[0, 1].item()
        q = a.mean().item()
        both = (a * b).mean().item()
        status = "ok" if abs(corr) < 0.05 else "VIOLATION"
        print(
            f"[{variant}] shards disjoint={disjoint}; inclusion rate={q:.4f}; "
            f"P(partner examples both included)={both:.4f} (independent: {q*q:.4f}); "
            f"correlation of the two inclusion indicators={corr:+.3f}; identical in {same*100:.1f}% of (step,pair)  {status}"
        )
        if abs(corr) >= 0.05:
            bad.append((variant, corr))
    if bad:
        print("VIOLATIONS:", bad)
        sys.exit(1)
    sys.exit(0)
