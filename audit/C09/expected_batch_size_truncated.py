"""C09: expected_batch_size = int(N * (1/L)) is truncated one below q*N when B | N.

The engine computes   sample_rate = 1 / len(loader);  int(len(dataset) * sample_rate)
in binary64.  For many loader lengths L (49, 98, 103, 107, 161, 187, 196, ...),
fl(B*L * fl(1/L)) = B - 1ulp, so int() gives B-1 although q*N == B exactly.
The optimizer then averages by B-1 (by 0 when B == 1, which makes the model non-finite).
"""
import sys
import warnings
from fractions import Fraction

import torch
from torch import nn
from torch.utils.data import DataLoader, TensorDataset

from opacus import PrivacyEngine

warnings.simplefilter("ignore")
bad = []


def build(N, B):
    torch.manual_seed(0)
    ds = TensorDataset(torch.randn(N, 3), torch.randint(0, 2, (N,)))
    dl = DataLoader(ds, batch_size=B)
    model = nn.Linear(3, 2)
    opt = torch.optim.SGD(model.parameters(), lr=0.1)
    eng = PrivacyEngine(accountant="rdp")
    m, o, d = eng.make_private(
        module=model, optimizer=opt, data_loader=dl, noise_multiplier=1.0, max_grad_norm=1.0
    )
    return eng, m, o, d, dl


for N, B in [(3136, 64), (12544, 256), (6592, 64), (50176, 512), (49, 1), (640, 64)]:
    eng, m, o, d, dl = build(N, B)
    L = len(dl)
    exact = Fraction(N, L)  # q * N with q = 1/L, exact rational arithmetic
    want = exact.numerator // exact.denominator
    got = o.expected_batch_size
    status = "ok" if got == want else "VIOLATION"
    print(f"N={N} B={B} L={L}: q*N={exact} integer part={want}  optimizer.expected_batch_size={got}  {status}")
    if got != want:
        bad.append((N, B, got, want))

# consequence for B == 1: division by zero in the averaging -> non-finite parameters
eng, m, o, d, dl = build(49, 1)
for x, y in d:
    if len(x) == 0:
        continue
    o.zero_grad()
    nn.functional.cross_entropy(m(x), y).backward()
    o.step()
    break
finite = all(torch.isfinite(p).all().item() for p in m.parameters())
print("N=49 B=1: parameters finite after one DP step:", finite, " expected_batch_size =", o.expected_batch_size)
if not finite:
    bad.append(("nonfinite", 49, 1))

if bad:
    print("VIOLATIONS:", bad)
    sys.exit(1)
sys.exit(0)
