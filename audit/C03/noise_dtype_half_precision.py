"""C03 / DPOptimizer.add_noise on a bfloat16 / float16 model (every variant, ghost included, shares add_noise).
_generate_noise builds the noise (and the zero tensor used when std == 0) with the default dtype float32 instead of
reference.dtype; summed_grad + noise is promoted to float32 and `p.grad = ...` raises
"attempting to assign a gradient with dtype 'float' to a tensor with grad_dtype 'BFloat16'".  Per-sample gradients and
clipping work; the step dies when handing the gradient to the inner optimizer.  float64 models work (promotion goes up)."""
import sys, warnings
import torch, torch.nn as nn
warnings.filterwarnings("ignore")
from opacus import PrivacyEngine
from torch.utils.data import TensorDataset, DataLoader

def main():
    bad = False
    for dt in [torch.float32, torch.float64, torch.bfloat16, torch.float16]:
        for mode in ["hooks", "ghost"]:
            torch.manual_seed(0)
            X = torch.randn(8, 5).to(dt); Y = torch.randint(0, 3, (8,))
            m = nn.Sequential(nn.Linear(5, 4), nn.Tanh(), nn.Linear(4, 3)).to(dt)
            opt = torch.optim.SGD(m.parameters(), lr=0.1)
            crit = nn.CrossEntropyLoss()
            r = PrivacyEngine().make_private(module=m, optimizer=opt, data_loader=DataLoader(TensorDataset(X, Y), batch_size=8),
                                             criterion=crit, noise_multiplier=1.0, max_grad_norm=1.0, poisson_sampling=False,
                                             grad_sample_mode=mode)
            gm, opt, crit = (r[0], r[1], r[2]) if mode == "ghost" else (r[0], r[1], crit)
            try:
                crit(gm(X), Y).backward()
                opt.step()
                print(f"{str(dt):15s} {mode:6s}: step ok, p.grad dtype {m[0].weight.grad.dtype}")
            except Exception as e:
                print(f"{str(dt):15s} {mode:6s}: {type(e).__name__}: {str(e)[:100]}")
                bad = True
    if bad:
        print("VIOLATION: the DP step crashes on half-precision parameters (noise is always float32)")
        sys.exit(1)
    sys.exit(0)

if __name__ == "__main__":
    main()
