"""C03 / make_private(clipping="per_layer", grad_sample_mode="hooks") on a module wrapped in Opacus' own
DifferentiallyPrivateDistributedDataParallel.  get_optimizer_class returns DistributedPerLayerOptimizer, which relies on
torch DDP's reducer to combine the workers; DPDDP has no reducer and this optimizer has no reduce_gradients(), so nothing
is ever summed across workers: every replica steps with its own local (doubled, see ddp_perlayer_scale.py) gradient,
the replicas drift apart, and only rank 0 ever adds noise (ranks != 0 train without any noise).
flat/hooks and per_layer/ew on the same DPDDP module keep the replicas identical."""
import sys, warnings, tempfile
import torch, torch.nn as nn
warnings.filterwarnings("ignore")
import torch.distributed as dist
import torch.multiprocessing as mp
from torch.utils.data import TensorDataset, DataLoader
from torch.utils.data.distributed import DistributedSampler
def worker(rank, world, fname, clipping, mode, out):
    warnings.filterwarnings("ignore")
    from opacus import PrivacyEngine
    from opacus.distributed import DifferentiallyPrivateDistributedDataParallel as DPDDP
    dist.init_process_group("gloo", store=dist.FileStore(fname, world), rank=rank, world_size=world)
    torch.manual_seed(0)
    N, D = 24, 5
    ds = TensorDataset(torch.randn(N, D), torch.randint(0, 3, (N,)))
    torch.manual_seed(1)
    m = nn.Sequential(nn.Linear(D, 4), nn.Tanh(), nn.Linear(4, 3))
    opt = torch.optim.SGD(m.parameters(), lr=1.0)
    mm = DPDDP(m)
    dl = DataLoader(ds, batch_size=N // world, sampler=DistributedSampler(ds, num_replicas=world, rank=rank, shuffle=False))
    C=[1e8]*4 if clipping=="per_layer" else 1e8
    mm, opt, dl = PrivacyEngine().make_private(module=mm, optimizer=opt, data_loader=dl, noise_multiplier=0.0, max_grad_norm=C, poisson_sampling=False, clipping=clipping, grad_sample_mode=mode)
    for x, y in dl:
        opt.zero_grad(); nn.functional.cross_entropy(mm(x), y).backward(); opt.step(); break
    torch.save((type(opt).__name__, m[0].weight.detach().clone()), out+str(rank))
    dist.destroy_process_group()
if __name__=="__main__":
    bad=False
    for clipping,mode in [("flat","hooks"),("per_layer","hooks"),("per_layer","ew")]:
        f,out=tempfile.mktemp(),tempfile.mktemp()
        mp.spawn(worker,args=(2,f,clipping,mode,out),nprocs=2,join=True)
        (n,a),(_,b)=torch.load(out+"0"),torch.load(out+"1")
        d=(a-b).abs().max().item()
        print(clipping,mode,n,"max |w_rank0 - w_rank1| after one step:",d)
        bad = bad or d>1e-6
    if bad:
        print("VIOLATION: workers are not combined; replicas diverge")
        sys.exit(1)
    sys.exit(0)
