"""C03 / DPOptimizer.add_param_group (inherited from torch.optim.Optimizer and working through the param_groups
property) accepts a new group, but p.summed_grad is only initialised in __init__, so the next step() dies with
AttributeError: 'Parameter' object has no attribute 'summed_grad' -- after the first groups have already been
clipped, accumulated and marked as processed."""
import sys, warnings
import torch, torch.nn as nn
warnings.filterwarnings("ignore")
from opacus import GradSampleModule
from opacus.optimizers import DPOptimizer, DPOptimizerFastGradientClipping

def main():
    torch.manual_seed(0)
    X = torch.randn(8, 5); Y = torch.randint(0, 3, (8,))
    m = nn.Sequential(nn.Linear(5, 4), nn.Tanh(), nn.Linear(4, 3))
    gm = GradSampleModule(m)
    opt = DPOptimizer(torch.optim.SGD(m[2].parameters(), lr=0.1), noise_multiplier=0.0, max_grad_norm=1.0, expected_batch_size=8)
    opt.add_param_group({"params": list(m[0].parameters()), "lr": 0.01})      # e.g. progressive unfreezing
    print("groups:", len(opt.param_groups), "params seen by the DP optimizer:", len(opt.params))
    nn.functional.cross_entropy(gm(X), Y).backward()
    try:
        opt.step()
        print("step ok")
        sys.exit(0)
    except AttributeError as e:
        print("VIOLATION: step() after add_param_group ->", type(e).__name__, e)
        sys.exit(1)

if __name__ == "__main__":
    main()
