"""C03 / PrivacyEngine.make_private: expected_batch_size = int(len(dataset) * (1 / len(data_loader))).
The float reciprocal makes the product fall just below the exact integer for many loader lengths (49, 98, 103, 107,
161, 187, 196, 197, ...), and int() truncates: 1568 samples in 49 batches of 32 give expected_batch_size 31, 98/49 -> 1,
49/49 -> 0.  Every released gradient is divided by the wrong B (or by zero), so with zero noise and a huge C the DP step
is 32/31 (resp. 2x, inf) times the plain SGD step although all batches have exactly 32 (2, 1) examples."""
import sys, warnings
import torch, torch.nn as nn
warnings.filterwarnings("ignore")
from opacus import PrivacyEngine
from torch.utils.data import TensorDataset, DataLoader

def main():
    bad = False
    for N, bs in [(1568, 32), (98, 2), (49, 1), (1600, 32)]:
        torch.manual_seed(0)
        X = torch.randn(N, 3); Y = torch.randint(0, 2, (N,))
        torch.manual_seed(1); plain = nn.Linear(3, 2)
        torch.manual_seed(1); m = nn.Linear(3, 2)
        popt = torch.optim.SGD(plain.parameters(), lr=0.1)
        opt = torch.optim.SGD(m.parameters(), lr=0.1)
        dl = DataLoader(TensorDataset(X, Y), batch_size=bs)
        gm, opt, dl = PrivacyEngine().make_private(module=m, optimizer=opt, data_loader=dl, noise_multiplier=0.0,
                                                   max_grad_norm=1e9, poisson_sampling=False)
        x, y = X[:bs], Y[:bs]
        nn.functional.cross_entropy(plain(x), y).backward(); popt.step()
        nn.functional.cross_entropy(gm(x), y).backward(); opt.step()
        ratio = (m.weight.grad.norm() / plain.weight.grad.norm()).item()
        print(f"dataset {N}, batch_size {bs}, len(data_loader) {len(dl)}: expected_batch_size = {opt.expected_batch_size} "
              f"(exact {N // len(dl)});  |DP grad| / |plain grad| = {ratio:.5f}")
        if opt.expected_batch_size != N // len(dl) or not abs(ratio - 1) < 1e-4:
            bad = True
    if bad:
        print("VIOLATION: B is not the expected batch size; zero-noise/huge-C step differs from the plain step")
        sys.exit(1)
    sys.exit(0)

if __name__ == "__main__":
    main()
