"""C03 / DPPerLayerOptimizer: clip_and_accumulate pairs zip(self.params, self.max_grad_norms).  self.params is filtered by
requires_grad at every call, self.max_grad_norms is the list given at construction.  Freezing one parameter after the
optimizer was built (the `params` filter exists precisely to tolerate that) shifts the pairing: every later tensor is
clipped with its predecessor's bound, silently."""
import sys, warnings
import torch, torch.nn as nn
warnings.filterwarnings("ignore")
from opacus import PrivacyEngine
from torch.utils.data import TensorDataset, DataLoader

def main():
    torch.manual_seed(0)
    N, D = 8, 5
    X = torch.randn(N, D) * 3; Y = torch.randint(0, 3, (N,))
    m = nn.Sequential(nn.Linear(D, 4), nn.Tanh(), nn.Linear(4, 3))
    names = [n for n, _ in m.named_parameters()]
    bounds = dict(zip(names, [50.0, 50.0, 0.01, 0.01]))          # loose for layer 0, tight for layer 2
    opt = torch.optim.SGD(m.parameters(), lr=1.0)
    gm, opt, _ = PrivacyEngine().make_private(module=m, optimizer=opt, data_loader=DataLoader(TensorDataset(X, Y), batch_size=N),
                                              noise_multiplier=0.0, max_grad_norm=list(bounds.values()),
                                              poisson_sampling=False, clipping="per_layer")
    m[0].weight.requires_grad = False                              # freeze the first tensor after make_private
    nn.functional.cross_entropy(gm(X), Y).backward()
    opt.step()
    bad = False
    for n, p in m.named_parameters():
        if not p.requires_grad:
            continue
        released = (p.grad * N).norm().item()                      # |sum_i clipped g_i| <= N * bound must hold
        print(f"{n}: bound {bounds[n]}: |sum of clipped per-sample grads| = {released:.4f}  (must be <= {N * bounds[n]:.2f})")
        bad |= released > N * bounds[n] * 1.001
    if bad:
        print("VIOLATION: a tensor was clipped with another tensor's bound")
        sys.exit(1)
    sys.exit(0)

if __name__ == "__main__":
    main()
