import torch, torch.nn as nn

def clipped_mean(make_model, state, params, X, Y, loss_fn, C, B, per_layer=None):
    """Reference: (sum_i min(1, C/(|g_i|+1e-6)) g_i) / B on a fresh copy of the model (flat clipping over `params`)."""
    m = make_model(); m.load_state_dict(state)
    named = dict(m.named_parameters())
    ps = [named[n] for n in params]
    tot = [torch.zeros_like(p) for p in ps]
    for i in range(len(X)):
        g = torch.autograd.grad(loss_fn(m(X[i:i + 1]), Y[i:i + 1]), ps)
        nrm = torch.sqrt(sum((x ** 2).sum() for x in g))
        c = min(1.0, (C / (nrm + 1e-6)).item())
        for t, x in zip(tot, g):
            t += c * x
    return {n: t / B for n, t in zip(params, tot)}
