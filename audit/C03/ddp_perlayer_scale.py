"""C03 / DistributedPerLayerOptimizer (make_private(clipping="per_layer", grad_sample_mode="hooks") on a DDP module).
The per-parameter tensor hook sets p.grad = (summed_grad + noise) / (expected_batch_size * world_size) AND returns that
same tensor, so autograd's AccumulateGrad adds it to p.grad once more (factor 2); DDP then AVERAGES over the workers
although the hook already divided by world_size (factor 1/world_size).  The released gradient is 2/world_size times
clip-sum-noise-scale: right only for exactly 2 workers (the only case of opacus/tests/multigpu_gradcheck.py).
Check: noise 0, huge per-layer bounds -> must equal the plain DDP step.  CPU gloo, file store."""
import sys, warnings, tempfile
import torch, torch.nn as nn
warnings.filterwarnings("ignore")
import torch.distributed as dist
import torch.multiprocessing as mp
from torch.nn.parallel import DistributedDataParallel as DDP
from torch.utils.data import TensorDataset, DataLoader
from torch.utils.data.distributed import DistributedSampler

def worker(rank, world, fname, dp, out):
    warnings.filterwarnings("ignore")
    from opacus import PrivacyEngine
    dist.init_process_group("gloo", store=dist.FileStore(fname, world), rank=rank, world_size=world)
    torch.manual_seed(0)
    N, D = 24, 5
    ds = TensorDataset(torch.randn(N, D), torch.randint(0, 3, (N,)))
    torch.manual_seed(1)
    m = nn.Sequential(nn.Linear(D, 4), nn.Tanh(), nn.Linear(4, 3))
    w0 = m[0].weight.detach().clone()
    opt = torch.optim.SGD(m.parameters(), lr=1.0)
    mm = DDP(m)
    dl = DataLoader(ds, batch_size=N // world, sampler=DistributedSampler(ds, num_replicas=world, rank=rank, shuffle=False))
    name = "plain DDP"
    if dp:
        mm, opt, dl = PrivacyEngine().make_private(module=mm, optimizer=opt, data_loader=dl, noise_multiplier=0.0,
                                                   max_grad_norm=[1e8] * 4, poisson_sampling=False, clipping="per_layer")
        name = type(opt).__name__
    for x, y in dl:
        opt.zero_grad()
        nn.functional.cross_entropy(mm(x), y).backward()
        opt.step()
        break
    if rank == 0:
        torch.save((name, w0 - m[0].weight.detach()), out)
    dist.destroy_process_group()

def run(world, dp):
    f, out = tempfile.mktemp(), tempfile.mktemp()
    mp.spawn(worker, args=(world, f, dp, out), nprocs=world, join=True)
    return torch.load(out)

if __name__ == "__main__":
    bad = False
    for world in [1, 2, 3]:
        _, ref = run(world, False)
        name, d = run(world, True)
        ratio = (d.norm() / ref.norm()).item()
        print(f"world_size {world}: {name}: update / plain-DDP update = {ratio:.4f}   max abs diff {(d - ref).abs().max().item():.2e}")
        bad |= abs(ratio - 1) > 1e-3
    if bad:
        print("VIOLATION: distributed per-layer (hooks) step is 2/world_size times the clip-sum-noise-scale gradient")
        sys.exit(1)
    sys.exit(0)
