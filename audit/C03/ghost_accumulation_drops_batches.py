"""C03 / ghost clipping + gradient accumulation (several backward passes, one optimizer.step(), poisson_sampling=False).
hooks/functorch release (clipped sum over ALL accumulated batches) / (expected_batch_size * number of batches).
ghost: DPTensorFastGradientClipping.backward() calls optimizer.zero_grad() between its two passes, which also
resets p.summed_grad / p.grad of the batches accumulated so far, and accumulated_iterations is hard-wired to 1:
the step silently uses only the LAST batch, divided by expected_batch_size."""
import sys, warnings, os
sys.path.insert(0, os.path.dirname(__file__))
import torch, torch.nn as nn
warnings.filterwarnings("ignore")
from opacus import PrivacyEngine
from torch.utils.data import TensorDataset, DataLoader
from _common import clipped_mean

N, D, C, K = 12, 5, 0.3, 3
make = lambda: nn.Sequential(nn.Linear(D, 4), nn.Tanh(), nn.Linear(4, 3))
ce = nn.functional.cross_entropy

def run(mode):
    torch.manual_seed(1)
    m = make()
    state = {k: v.clone() for k, v in m.state_dict().items()}
    opt = torch.optim.SGD(m.parameters(), lr=1.0)
    dl = DataLoader(TensorDataset(X, Y), batch_size=N // K)
    crit = nn.CrossEntropyLoss()
    r = PrivacyEngine().make_private(module=m, optimizer=opt, data_loader=dl, criterion=crit, noise_multiplier=0.0,
                                     max_grad_norm=C, poisson_sampling=False, grad_sample_mode=mode)
    gm, opt, crit = (r[0], r[1], r[2]) if mode == "ghost" else (r[0], r[1], crit)
    for x, y in dl:                      # K backward passes ...
        crit(gm(x), y).backward()
    opt.step()                           # ... one logical step
    got = {n: p.grad.clone() for n, p in m.named_parameters()}
    ref = clipped_mean(make, state, list(got), X, Y, ce, C, opt.expected_batch_size * K)
    last = clipped_mean(make, state, list(got), X[-N // K:], Y[-N // K:], ce, C, opt.expected_batch_size)
    return (max((got[n] - ref[n]).abs().max().item() for n in ref),
            max((got[n] - last[n]).abs().max().item() for n in ref))

def main():
    global X, Y
    torch.manual_seed(0)
    X = torch.randn(N, D) * 3; Y = torch.randint(0, 3, (N,))
    bad = False
    for mode in ["hooks", "functorch", "ghost"]:
        d_all, d_last = run(mode)
        print(f"{mode:9s}: |released - clipped sum of all {K} batches/(B*{K})|max = {d_all:.2e}    "
              f"|released - clipped sum of the last batch/B|max = {d_last:.2e}")
        bad |= d_all > 1e-5
    if bad:
        print("VIOLATION: with ghost clipping the accumulated step silently drops every batch but the last")
        sys.exit(1)
    sys.exit(0)

if __name__ == "__main__":
    main()
