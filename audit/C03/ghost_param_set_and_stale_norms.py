"""C03 / ghost clipping: the per-sample norm is taken over GradSampleModuleFastGradientClipping.trainable_parameters,
a list built once in __init__, from p._norm_sample attributes that are never cleared.  It is therefore not the norm
"over all optimised parameters" when
 (1) a layer frozen at wrapping time is unfrozen later (gradual unfreezing): its gradient is released but not counted in
     the norm -> the clipped per-sample gradient exceeds C (hooks mode refuses with a ValueError instead);
 (2) a layer is frozen after some steps: its last _norm_sample keeps being counted -> examples are over-clipped;
 (3) the optimizer holds only a subset of the trainable parameters: hooks/functorch/ew clip on the norm over the
     optimizer's parameters, ghost on the norm over all trainable parameters of the module -> different updates."""
import sys, warnings, os
sys.path.insert(0, os.path.dirname(__file__))
import torch, torch.nn as nn
warnings.filterwarnings("ignore")
from opacus import PrivacyEngine
from torch.utils.data import TensorDataset, DataLoader
from _common import clipped_mean

N, D, C = 8, 5, 0.3
make = lambda: nn.Sequential(nn.Linear(D, 4), nn.Tanh(), nn.Linear(4, 3))
ce = nn.functional.cross_entropy

def run(mode, scenario):
    torch.manual_seed(1)
    m = make()
    if scenario == "unfreeze":
        for p in m[0].parameters(): p.requires_grad = False
    opt_params = m[2].parameters() if scenario == "subset" else m.parameters()
    opt = torch.optim.SGD(opt_params, lr=1.0)
    dl = DataLoader(TensorDataset(X, Y), batch_size=N)
    crit = nn.CrossEntropyLoss()
    r = PrivacyEngine().make_private(module=m, optimizer=opt, data_loader=dl, criterion=crit, noise_multiplier=0.0,
                                     max_grad_norm=C, poisson_sampling=False, grad_sample_mode=mode)
    gm, opt, crit = (r[0], r[1], r[2]) if mode == "ghost" else (r[0], r[1], crit)
    crit(gm(X), Y).backward(); opt.step(); opt.zero_grad()              # an ordinary first step
    if scenario == "unfreeze":
        for p in m[0].parameters(): p.requires_grad = True
    if scenario == "freeze":
        for p in m[0].parameters(): p.requires_grad = False
    state = {k: v.clone() for k, v in m.state_dict().items()}
    optimised = [n for n, p in m.named_parameters() if p.requires_grad and any(p is q for q in opt.params)]
    crit(gm(X), Y).backward(); opt.step()
    named = dict(m.named_parameters())
    got = {n: named[n].grad.clone() for n in optimised}
    ref = clipped_mean(make, state, optimised, X, Y, ce, C, N)
    if mode == "ghost" and scenario == "unfreeze":
        # sensitivity actually enforced: max_i coeff_i * |g_i| over the optimised parameters
        coeff = gm.get_clipping_coef()
        m2 = make(); m2.load_state_dict(state)
        worst = 0.0
        for i in range(N):
            g = torch.autograd.grad(ce(m2(X[i:i + 1]), Y[i:i + 1]), list(m2.parameters()))
            worst = max(worst, (coeff[i] * torch.sqrt(sum((x ** 2).sum() for x in g))).item())
        print(f"          ghost : largest clipped per-sample norm actually released = {worst:.4f}  (C = {C})")
    return max((got[n] - ref[n]).abs().max().item() for n in ref), optimised

def main():
    global X, Y
    torch.manual_seed(0)
    X = torch.randn(N, D) * 3; Y = torch.randint(0, 3, (N,))
    bad = False
    for scenario in ["unfreeze", "freeze", "subset"]:
        for mode in ["hooks", "ghost"]:
            try:
                d, names = run(mode, scenario)
                print(f"{scenario:9s} {mode:6s}: optimised={names}  |released - clipped_mean over optimised params|max = {d:.2e}")
                if d > 1e-5:
                    bad = True
            except Exception as e:
                print(f"{scenario:9s} {mode:6s}: refuses: {type(e).__name__}: {str(e)[:90]}")
    if bad:
        print("VIOLATION: ghost clipping's norm is not the joint norm over the optimised parameters")
        sys.exit(1)
    sys.exit(0)

if __name__ == "__main__":
    main()
