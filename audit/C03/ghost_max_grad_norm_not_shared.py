"""C03 / ghost clipping: the clipping norm "in force" lives in two places.  The optimizer scales the noise with
optimizer.max_grad_norm, but the per-sample coefficients are computed from GradSampleModuleFastGradientClipping.max_grad_norm,
fixed when the module was wrapped.  Anything that changes optimizer.max_grad_norm afterwards
 (a) a clipping scheduler (opacus.schedulers.*GradClip),
 (b) a second make_private() call that receives the already wrapped module with another max_grad_norm,
changes the noise but not the clipping.  With hooks the same calls change both."""
import sys, warnings, os
sys.path.insert(0, os.path.dirname(__file__))
import torch, torch.nn as nn
warnings.filterwarnings("ignore")
from opacus import PrivacyEngine
from opacus.schedulers import ExponentialGradClip
from torch.utils.data import TensorDataset, DataLoader
from _common import clipped_mean

N, D = 8, 5
make = lambda: nn.Sequential(nn.Linear(D, 4), nn.Tanh(), nn.Linear(4, 3))
ce = nn.functional.cross_entropy

def build(mode, C, module=None, optimizer=None):
    torch.manual_seed(1)
    m = module if module is not None else make()
    opt = optimizer if optimizer is not None else torch.optim.SGD(m.parameters(), lr=1.0)
    dl = DataLoader(TensorDataset(X, Y), batch_size=N)
    crit = nn.CrossEntropyLoss()
    r = PrivacyEngine().make_private(module=m, optimizer=opt, data_loader=dl, criterion=crit, noise_multiplier=0.0,
                                     max_grad_norm=C, poisson_sampling=False, grad_sample_mode=mode)
    return (r[0], r[1], r[2]) if mode == "ghost" else (r[0], r[1], crit)

def one_step(gm, opt, crit):
    inner = gm._module
    state = {k: v.clone() for k, v in inner.state_dict().items()}
    opt.zero_grad()
    crit(gm(X), Y).backward()
    opt.step()
    got = {n: p.grad.clone() for n, p in inner.named_parameters()}
    ref = clipped_mean(make, state, list(got), X, Y, ce, float(opt.max_grad_norm), N)
    return max((got[n] - ref[n]).abs().max().item() for n in ref)

def main():
    global X, Y
    torch.manual_seed(0)
    X = torch.randn(N, D) * 3; Y = torch.randint(0, 3, (N,))
    bad = False
    # (a) scheduler
    for mode in ["hooks", "ghost"]:
        gm, opt, crit = build(mode, 0.5)
        sch = ExponentialGradClip(opt, gamma=0.1)
        sch.step()                                   # C in force is now 0.05; the noise std follows it
        d = one_step(gm, opt, crit)
        print(f"(a) {mode}: after ExponentialGradClip.step() optimizer.max_grad_norm={opt.max_grad_norm:.3f} "
              f"module.max_grad_norm={getattr(gm, 'max_grad_norm', '-')}  |released - clipped_mean(C=optimizer.max_grad_norm)|max={d:.2e}")
        bad |= d > 1e-5
    # (b) second make_private on the wrapped module
    for mode in ["hooks", "ghost"]:
        gm, opt, crit = build(mode, 5.0)
        gm2, opt2, crit2 = build(mode, 0.05, module=gm, optimizer=opt)
        d = one_step(gm2, opt2, crit2)
        print(f"(b) {mode}: second make_private(max_grad_norm=0.05): optimizer.max_grad_norm={opt2.max_grad_norm} "
              f"module.max_grad_norm={getattr(gm2, 'max_grad_norm', '-')}  |released - clipped_mean(C=0.05)|max={d:.2e}")
        bad |= d > 1e-5
    if bad:
        print("VIOLATION: ghost clipping clips with a stale norm while the noise is scaled with the new one")
        sys.exit(1)
    sys.exit(0)

if __name__ == "__main__":
    main()
