"""C03 / AdaClipDPOptimizer (make_private(clipping="adaptive")).
 (1) An empty Poisson batch -- which DPOptimizer and DPPerLayerOptimizer handle (the step is pure noise / B) -- crashes
     AdaClipDPOptimizer.clip_and_accumulate: it re-implements the parent's clipping with g.view(len(g), -1) and without
     the parent's empty-batch branch (RuntimeError: cannot reshape tensor of 0 elements into shape [0, -1]).
     Were that fixed, update_max_grad_norm would divide by sample_size == 0 and turn max_grad_norm into nan.
 (2) noise_multiplier=0 (the "zero noise" corner of the property, accepted by every other optimizer) raises
     ZeroDivisionError in __init__: noise_multiplier ** (-2)."""
import sys, warnings
import torch, torch.nn as nn
warnings.filterwarnings("ignore")
from opacus import PrivacyEngine
from torch.utils.data import TensorDataset, DataLoader

ADA = dict(target_unclipped_quantile=0.5, clipbound_learning_rate=0.2, max_clipbound=10.0, min_clipbound=0.01,
           unclipped_num_std=1.0)

def build(clipping, noise_multiplier):
    torch.manual_seed(1)
    m = nn.Sequential(nn.Linear(5, 4), nn.Tanh(), nn.Linear(4, 3))
    opt = torch.optim.SGD(m.parameters(), lr=0.1)
    dl = DataLoader(TensorDataset(torch.randn(16, 5), torch.randint(0, 3, (16,))), batch_size=4)
    C = [0.3] * 4 if clipping == "per_layer" else 0.3
    kw = ADA if clipping == "adaptive" else {}
    return PrivacyEngine().make_private(module=m, optimizer=opt, data_loader=dl, noise_multiplier=noise_multiplier,
                                        max_grad_norm=C, poisson_sampling=True, clipping=clipping, **kw)

def main():
    bad = False
    x0, y0 = torch.zeros(0, 5), torch.zeros(0, dtype=torch.long)        # what DPDataLoader yields for an empty draw
    for clipping in ["flat", "per_layer", "adaptive"]:
        gm, opt, dl = build(clipping, 0.5)
        try:
            opt.zero_grad()
            nn.functional.cross_entropy(gm(x0), y0, reduction="sum").backward()
            opt.step()
            C = opt.max_grad_norm
            ok = bool(torch.isfinite(torch.as_tensor(C)))
            print(f"(1) {clipping:9s}: empty batch ok, max_grad_norm afterwards = {float(C):.4f}")
            bad |= not ok
        except Exception as e:
            print(f"(1) {clipping:9s}: empty batch -> {type(e).__name__}: {str(e)[:110]}")
            bad = True
    for clipping in ["flat", "per_layer", "adaptive"]:
        try:
            build(clipping, 0.0)
            print(f"(2) {clipping:9s}: noise_multiplier=0 accepted")
        except Exception as e:
            print(f"(2) {clipping:9s}: noise_multiplier=0 -> {type(e).__name__}: {e}")
            bad = True
    if bad:
        print("VIOLATION: AdaClipDPOptimizer crashes on configurations the other DP optimizers handle")
        sys.exit(1)
    sys.exit(0)

if __name__ == "__main__":
    main()
