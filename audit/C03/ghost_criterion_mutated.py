"""C03 / ghost clipping, second make_private call.  DPLossFastGradientClipping.__init__ overwrites the USER'S criterion
object in place (criterion.reduction = "none").  make_private's default `criterion=nn.CrossEntropyLoss()` is a single
object created at import time, so it is hit too.  A second make_private(grad_sample_mode="ghost") in the same process --
another model, another engine, default or re-used criterion -- fails the loss_reduction consistency assert with a
message that blames the user's settings; and the user's own criterion meanwhile returns a vector instead of a scalar."""
import sys, warnings
import torch, torch.nn as nn
warnings.filterwarnings("ignore")
from opacus import PrivacyEngine
from torch.utils.data import TensorDataset, DataLoader

def main():
    torch.manual_seed(0)
    X = torch.randn(8, 5); Y = torch.randint(0, 3, (8,))
    dl = DataLoader(TensorDataset(X, Y), batch_size=8)
    bad = False
    for i in range(2):
        m = nn.Sequential(nn.Linear(5, 4), nn.Tanh(), nn.Linear(4, 3))
        opt = torch.optim.SGD(m.parameters(), lr=0.1)
        try:
            PrivacyEngine().make_private(module=m, optimizer=opt, data_loader=dl, noise_multiplier=1.0, max_grad_norm=1.0,
                                         poisson_sampling=False, grad_sample_mode="ghost")      # default criterion
            print(f"default criterion, call {i + 1}: ok")
        except AssertionError as e:
            print(f"default criterion, call {i + 1}: AssertionError: {e}")
            bad = True
    crit = nn.MSELoss()
    m = nn.Linear(5, 1); opt = torch.optim.SGD(m.parameters(), lr=0.1)
    PrivacyEngine().make_private(module=m, optimizer=opt, data_loader=dl, criterion=crit, noise_multiplier=1.0,
                                 max_grad_norm=1.0, poisson_sampling=False, grad_sample_mode="ghost")
    print("user's MSELoss(reduction='mean') after make_private: reduction =", repr(crit.reduction))
    bad |= crit.reduction != "mean"
    if bad:
        print("VIOLATION: the ghost path cannot be set up a second time / mutates the caller's criterion")
        sys.exit(1)
    sys.exit(0)

if __name__ == "__main__":
    main()
