"""C03 / ghost clipping: a criterion whose per-sample loss has shape [B, 1] (MSELoss, L1Loss, BCEWithLogitsLoss on a
model with one output unit and targets of shape [B, 1]) is clipped wrongly: coeff (shape [B]) * loss_per_sample
(shape [B, 1]) broadcasts to [B, B], so the second backward differentiates (sum_j c_j) * sum_i loss_i.
The released gradient is (sum_j c_j) * sum_i g_i / B instead of sum_i c_i g_i / B: nothing is clipped per sample."""
import sys, warnings, os
sys.path.insert(0, os.path.dirname(__file__))
import torch, torch.nn as nn
warnings.filterwarnings("ignore")
from opacus import PrivacyEngine
from torch.utils.data import TensorDataset, DataLoader
from _common import clipped_mean

N, D, C = 8, 5, 0.5
make = lambda: nn.Sequential(nn.Linear(D, 4), nn.Tanh(), nn.Linear(4, 1))

def run(mode, crit_cls, X, Y):
    torch.manual_seed(1)
    m = make()
    state = {k: v.clone() for k, v in m.state_dict().items()}
    opt = torch.optim.SGD(m.parameters(), lr=1.0)
    dl = DataLoader(TensorDataset(X, Y), batch_size=N)
    crit = crit_cls()
    r = PrivacyEngine().make_private(module=m, optimizer=opt, data_loader=dl, criterion=crit, noise_multiplier=0.0,
                                     max_grad_norm=C, poisson_sampling=False, grad_sample_mode=mode)
    gm, opt, crit = (r[0], r[1], r[2]) if mode == "ghost" else (r[0], r[1], crit)
    crit(gm(X), Y).backward()
    opt.step()
    return state, {n: p.grad.clone() for n, p in m.named_parameters()}

def main():
    torch.manual_seed(0)
    X = torch.randn(N, D)
    bad = False
    for crit_cls, Y in [(nn.MSELoss, torch.randn(N, 1) * 3), (nn.BCEWithLogitsLoss, torch.randint(0, 2, (N, 1)).float())]:
        state, hooks = run("hooks", crit_cls, X, Y)
        _, ghost = run("ghost", crit_cls, X, Y)
        ref = clipped_mean(make, state, list(hooks), X, Y, crit_cls(), C, N)
        dh = max((hooks[n] - ref[n]).abs().max().item() for n in ref)
        dg = max((ghost[n] - ref[n]).abs().max().item() for n in ref)
        tot = lambda d: torch.sqrt(sum((v ** 2).sum() for v in d.values())).item()
        print(f"{crit_cls.__name__}: |hooks-ref|max={dh:.2e}  |ghost-ref|max={dg:.2e}  "
              f"norm of released grad: ref {tot(ref):.4f} hooks {tot(hooks):.4f} ghost {tot(ghost):.4f} (bound C={C})")
        if dg > 1e-5:
            bad = True
    if bad:
        print("VIOLATION: ghost clipping hands the optimizer a gradient that is not the clipped sum (per-sample loss of shape [B,1])")
        sys.exit(1)
    sys.exit(0)

if __name__ == "__main__":
    main()
