"""C03 / BatchMemoryManager: skip signals queued by a prefetching DataLoader survive an early exit from
the loop (and the context manager), so in the next epoch optimizer.step() takes its 'real' steps at the
wrong physical batches: a released gradient then covers a different number of examples than one logical
batch while still being divided by expected_batch_size."""
import sys, warnings
import torch, torch.nn as nn
warnings.filterwarnings("ignore")
from opacus import PrivacyEngine
from opacus.utils.batch_memory_manager import BatchMemoryManager
from torch.utils.data import TensorDataset, DataLoader

def main():
    torch.manual_seed(0)
    N, D = 48, 5
    ds = TensorDataset(torch.randn(N, D), torch.randint(0, 3, (N,)))
    m = nn.Linear(D, 3)
    opt = torch.optim.SGD(m.parameters(), lr=0.1)
    dl = DataLoader(ds, batch_size=12, num_workers=2)          # logical batch 12 -> 3 physical batches of 4
    gm, opt, dl = PrivacyEngine().make_private(module=m, optimizer=opt, data_loader=dl, noise_multiplier=0.0,
                                               max_grad_norm=1.0, poisson_sampling=False)
    bad = False
    for epoch in range(2):
        with BatchMemoryManager(data_loader=dl, max_physical_batch_size=4, optimizer=opt) as bdl:
            seen, sizes = 0, []
            for x, y in bdl:
                opt.zero_grad()
                nn.functional.cross_entropy(gm(x), y).backward()
                seen += len(x)
                opt.step()
                if not opt._is_last_step_skipped:
                    sizes.append(seen); seen = 0
                    if epoch == 0:
                        break                       # e.g. "max_steps reached"
        print(f"epoch {epoch}: examples per released step {sizes}; flags left in the queue {opt._step_skip_queue}")
        if epoch == 1 and any(s != 12 for s in sizes):
            bad = True
    if bad:
        print("VIOLATION: after an early exit the logical-batch boundaries are shifted; steps release sums over "
              "!= 12 examples divided by expected_batch_size=12")
        sys.exit(1)
    sys.exit(0)

if __name__ == "__main__":
    main()
