"""
C10 violation: BatchMemoryManager.__exit__ is a no-op and BatchSplittingSampler.__iter__ never resets the optimizer,
so a logical batch that was only partly processed when the loop was left (exception / KeyboardInterrupt /
"stop after N physical steps" / time budget) stays in the optimizer: p.summed_grad keeps the clipped sum of the
processed chunks and _is_last_step_skipped stays True, which makes the next zero_grad() keep it.  When training is
resumed (a new BatchMemoryManager, or even the plain loader) the stale clipped gradients are silently added to the
first logical batch of the new run -- samples of two different Poisson draws in one noised sum (a sample drawn
twice contributes up to 2*C while the noise is calibrated for C).

Reference: same program without BatchMemoryManager, interrupted at the same place (the interrupted logical batch
is dropped), then resumed on the same sampled logical batches with the same noise generator.  Exit 1 on difference.
"""
import sys, warnings
warnings.filterwarnings("ignore")
import torch, torch.nn as nn
from torch.utils.data import DataLoader, Dataset
from opacus import PrivacyEngine
from opacus.utils.batch_memory_manager import BatchMemoryManager


class DS(Dataset):
    def __init__(self):
        g = torch.Generator().manual_seed(1)
        self.x = torch.randn(40, 5, generator=g)
        self.y = torch.randint(0, 3, (40,), generator=g)
    def __len__(self): return 40
    def __getitem__(self, i): return self.x[i], self.y[i], i


class Interrupted(Exception):
    pass


def run(mode, max_phys):
    torch.manual_seed(0)
    model = nn.Sequential(nn.Linear(5, 7), nn.ReLU(), nn.Linear(7, 3))
    opt = torch.optim.SGD(model.parameters(), lr=0.1)
    dl = DataLoader(DS(), batch_size=8)
    pe = PrivacyEngine(accountant="rdp")
    ng = torch.Generator().manual_seed(11)
    res = pe.make_private(module=model, optimizer=opt, data_loader=dl, criterion=nn.CrossEntropyLoss(),
                          noise_multiplier=1.0, max_grad_norm=1.0, noise_generator=ng, grad_sample_mode=mode)
    if mode == "ghost":
        model, opt, crit, dl = res
    else:
        (model, opt, dl), crit = res, nn.CrossEntropyLoss()
    updates = []

    def one(x, y):
        opt.zero_grad()
        crit(model(x), y).backward()
        before = torch.cat([p.detach().flatten().clone() for p in model.parameters()])
        opt.step()
        after = torch.cat([p.detach().flatten().clone() for p in model.parameters()])
        stepped = max_phys is None or not torch.equal(before, after)
        if stepped:
            updates.append(after)
        return stepped

    def phase1(loader):
        # two complete logical batches, then the run is interrupted inside the third one
        dl.batch_sampler.generator = torch.Generator().manual_seed(5)
        n = 0
        it = iter(loader)
        while n < 2:
            n += one(*next(it)[:2])
        if max_phys is not None:
            x, y, _ = next(it)
            assert not one(x, y), "first chunk of the third logical batch must be a skipped step"
        raise Interrupted()

    def phase2(loader):
        dl.batch_sampler.generator = torch.Generator().manual_seed(6)
        for x, y, _ in loader:
            one(x, y)

    for phase in (phase1, phase2):
        try:
            if max_phys is None:
                phase(dl)
            else:
                with BatchMemoryManager(data_loader=dl, max_physical_batch_size=max_phys, optimizer=opt) as loader:
                    phase(loader)
        except Interrupted:
            pass
    return dict(updates=updates, hist=list(pe.accountant.history), ng=ng.get_state())


bad = False
for mode in ["hooks", "ghost"]:
    ref, got = run(mode, None), run(mode, 3)
    problems = []
    if len(ref["updates"]) != len(got["updates"]):
        problems.append(f"number of parameter updates {len(got['updates'])} != {len(ref['updates'])}")
    d = [(a - b).abs().max().item() for a, b in zip(ref["updates"], got["updates"])]
    if d and max(d) > 1e-5:
        first = next(i for i, v in enumerate(d) if v > 1e-5)
        problems.append(f"parameters differ from logical step {first} on (max abs diff {max(d):.4f}); "
                        f"steps 0-1 are before the interruption, step 2 is the first step after resuming")
    if ref["hist"] != got["hist"]:
        problems.append(f"accountant history {got['hist']} != {ref['hist']}")
    if not torch.equal(ref["ng"], got["ng"]):
        problems.append("noise generator ends in a different state")
    print(f"[{mode}] " + ("OK" if not problems else "VIOLATION: " + "; ".join(problems)))
    bad |= bool(problems)
sys.exit(1 if bad else 0)
