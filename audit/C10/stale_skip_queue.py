"""
C10 violation: the skip signals of BatchMemoryManager are queued when a physical batch is FETCHED and are only
removed when optimizer.step() is called; nothing ever resets the queue.  Fetching one batch that is not stepped
(here: `next(iter(loader))` to look at the shapes before training; the same happens with
`for i, b in enumerate(loader): if i == n: break`, with an exception between fetch and step, or with an
evaluation pass over the wrapped loader) leaves a stale signal at the head of the FIFO.  Every later step then
pops the signal of the PREVIOUS physical batch: logical batches are cut at the wrong places, the last physical
batch of an epoch is never stepped, one noise draw / accountant step is lost.

The same program without BatchMemoryManager (same peek, same sampled logical batches, same noise generator) is
the reference.  Exit 1 when the two differ.
"""
import sys, warnings
warnings.filterwarnings("ignore")
import torch, torch.nn as nn
from torch.utils.data import DataLoader, Dataset
from opacus import PrivacyEngine
from opacus.utils.batch_memory_manager import BatchMemoryManager


class DS(Dataset):
    def __init__(self):
        g = torch.Generator().manual_seed(1)
        self.x = torch.randn(40, 5, generator=g)
        self.y = torch.randint(0, 3, (40,), generator=g)
    def __len__(self): return 40
    def __getitem__(self, i): return self.x[i], self.y[i], i


def run(mode, max_phys):
    torch.manual_seed(0)
    model = nn.Sequential(nn.Linear(5, 7), nn.ReLU(), nn.Linear(7, 3))
    opt = torch.optim.SGD(model.parameters(), lr=0.1, momentum=0.9)
    dl = DataLoader(DS(), batch_size=8)
    pe = PrivacyEngine(accountant="rdp")
    ng = torch.Generator().manual_seed(11)
    res = pe.make_private(module=model, optimizer=opt, data_loader=dl, criterion=nn.CrossEntropyLoss(),
                          noise_multiplier=1.0, max_grad_norm=1.0, noise_generator=ng, grad_sample_mode=mode)
    if mode == "ghost":
        model, opt, crit, dl = res
    else:
        (model, opt, dl), crit = res, nn.CrossEntropyLoss()
    updates, seen = [], []

    def train(loader):
        x, y, _ = next(iter(loader))            # look at one batch, do not train on it
        dl.batch_sampler.generator = torch.Generator().manual_seed(5)   # same logical batches in both runs
        for epoch in range(2):
            for x, y, idx in loader:
                assert max_phys is None or len(x) <= max_phys
                seen.extend(idx.tolist())
                opt.zero_grad()
                crit(model(x), y).backward()
                before = torch.cat([p.detach().flatten().clone() for p in model.parameters()])
                opt.step()
                after = torch.cat([p.detach().flatten().clone() for p in model.parameters()])
                if max_phys is None or not torch.equal(before, after):
                    updates.append(after)

    if max_phys is None:
        train(dl)
    else:
        with BatchMemoryManager(data_loader=dl, max_physical_batch_size=max_phys, optimizer=opt) as loader:
            train(loader)
    return dict(updates=updates, seen=seen, hist=list(pe.accountant.history), ng=ng.get_state(),
                queue=list(opt._step_skip_queue), pending=opt._is_last_step_skipped)


bad = False
for mode in ["hooks", "ghost"]:
    ref, got = run(mode, None), run(mode, 4)
    assert ref["seen"] == got["seen"], "precondition: same samples in the same order"
    problems = []
    if len(ref["updates"]) != len(got["updates"]):
        problems.append(f"number of parameter updates {len(got['updates'])} != {len(ref['updates'])}")
    d = [(a - b).abs().max().item() for a, b in zip(ref["updates"], got["updates"])]
    if d and max(d) > 1e-5:
        first = next(i for i, v in enumerate(d) if v > 1e-5)
        problems.append(f"parameters differ from logical step {first} on (max abs diff {max(d):.4f})")
    if ref["hist"] != got["hist"]:
        problems.append(f"accountant history {got['hist']} != {ref['hist']}")
    if not torch.equal(ref["ng"], got["ng"]):
        problems.append("noise generator ends in a different state (different number of noise draws)")
    if got["queue"] or got["pending"]:
        problems.append(f"after training: skip queue {got['queue']}, a partial logical batch is still pending: {got['pending']}")
    print(f"[{mode}] " + ("OK" if not problems else "VIOLATION: " + "; ".join(problems)))
    bad |= bool(problems)
sys.exit(1 if bad else 0)
