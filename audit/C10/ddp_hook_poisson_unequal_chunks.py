"""
C10 violation, distributed "ddp hook" mode (torch DDP model + clipping="per_layer" -> DistributedPerLayerOptimizer,
the one optimizer whose backward hooks peek at the skip queue, i.e. BatchMemoryManager support is intended).

With Poisson sampling (the default) every rank draws its own local batch, so ceil(len/max_physical_batch_size)
differs between ranks.  BatchSplittingSampler splits locally, hence ranks run a different number of backward
passes per logical batch.  torch DDP all-reduces on EVERY backward, so the collectives of the ranks pair up across
different physical/logical batches: a rank's final (clipped, noised) gradient is averaged with another rank's raw,
unclipped, un-noised gradient of a skipped step.  Observed: replicas diverge, the updates differ from the run
without BatchMemoryManager, and the rank with more chunks finally dies / hangs in a collective.

Two gloo ranks on CPU, file store.  Exit 1 when the BatchMemoryManager run is not equivalent to the plain run.
"""
import os, sys, tempfile, datetime, warnings
warnings.filterwarnings("ignore")
import torch, torch.nn as nn, torch.distributed as dist, torch.multiprocessing as mp
from torch.utils.data import DataLoader, TensorDataset
from torch.nn.parallel import DistributedDataParallel as DDP


def worker(rank, world, store_file, max_phys, out_file):
    from opacus import PrivacyEngine
    from opacus.utils.batch_memory_manager import BatchMemoryManager
    dist.init_process_group("gloo", store=dist.FileStore(store_file, world), rank=rank, world_size=world,
                            timeout=datetime.timedelta(seconds=20))
    torch.manual_seed(1)
    X = torch.randn(64, 5); Y = torch.randint(0, 3, (64,))
    dl = DataLoader(TensorDataset(X, Y), batch_size=16)
    torch.manual_seed(0)
    model = DDP(nn.Sequential(nn.Linear(5, 7), nn.ReLU(), nn.Linear(7, 3)))
    opt = torch.optim.SGD(model.parameters(), lr=0.1)
    pe = PrivacyEngine(accountant="rdp")
    model, opt, dl = pe.make_private(module=model, optimizer=opt, data_loader=dl, noise_multiplier=1.0,
                                     max_grad_norm=[0.5] * 4, clipping="per_layer", poisson_sampling=True)
    dl.batch_sampler.generator = torch.Generator().manual_seed(100 + rank)   # same local Poisson batches in every run
    torch.manual_seed(42)            # this optimizer draws its noise from the global RNG
    crit = nn.CrossEntropyLoss()
    updates, sizes = [], []

    def train(loader):
        for x, y in loader:
            sizes.append(len(x))
            opt.zero_grad()
            crit(model(x), y).backward()
            before = torch.cat([p.detach().flatten().clone() for p in model.parameters()])
            opt.step()
            after = torch.cat([p.detach().flatten().clone() for p in model.parameters()])
            if max_phys is None or not torch.equal(before, after):
                updates.append(after)

    status = "ok"
    try:
        if max_phys is None:
            train(dl)
        else:
            with BatchMemoryManager(data_loader=dl, max_physical_batch_size=max_phys, optimizer=opt) as loader:
                train(loader)
    except Exception as e:
        status = f"{type(e).__name__}: {str(e)[:160]}"
    torch.save(dict(updates=updates, sizes=sizes, status=status, hist=list(pe.accountant.history),
                    cls=type(opt).__name__), f"{out_file}.{rank}")


def launch(max_phys):
    d = tempfile.mkdtemp()
    ctx = mp.get_context("spawn")
    procs = [ctx.Process(target=worker, args=(r, 2, d + "/store", max_phys, d + "/out")) for r in range(2)]
    for p in procs: p.start()
    for p in procs: p.join(150)
    hung = any(p.is_alive() for p in procs)
    for p in procs:
        if p.is_alive(): p.kill()
    res = [torch.load(f"{d}/out.{r}") if os.path.exists(f"{d}/out.{r}") else None for r in range(2)]
    return hung, res


def check(name, base, hung, got):
    problems = []
    if hung:
        problems.append("a rank hung")
    for r in range(2):
        if got[r] is None:
            problems.append(f"rank {r} died"); continue
        if got[r]["status"] != "ok":
            problems.append(f"rank {r} raised {got[r]['status']}")
        print(f"   rank {r}: physical batch sizes {got[r]['sizes']}")
        n0, n1 = len(base[r]["updates"]), len(got[r]["updates"])
        if n0 != n1:
            problems.append(f"rank {r}: {n1} parameter updates instead of {n0}")
        d = [(a - b).abs().max().item() for a, b in zip(base[r]["updates"], got[r]["updates"])]
        if d and max(d) > 1e-5:
            problems.append(f"rank {r}: parameters differ from the plain run from logical step "
                            f"{next(i for i, v in enumerate(d) if v > 1e-5)} on (max diff {max(d):.4f})")
        if base[r]["hist"] != got[r]["hist"]:
            problems.append(f"rank {r}: accountant history {got[r]['hist']} != {base[r]['hist']}")
    if got[0] and got[1]:
        d = [(a - b).abs().max().item() for a, b in zip(got[0]["updates"], got[1]["updates"])]
        if d and max(d) > 1e-6:
            problems.append(f"replicas diverge from logical step {next(i for i, v in enumerate(d) if v > 1e-6)} on "
                            f"(max diff between rank 0 and rank 1: {max(d):.4f})")
    print(f"[{name}] " + ("OK" if not problems else "VIOLATION: " + "; ".join(problems)))
    return bool(problems)


if __name__ == "__main__":
    hung, base = launch(None)
    assert not hung and all(b and b["status"] == "ok" for b in base), "plain distributed run failed"
    print("optimizer:", base[0]["cls"], "| local logical batch sizes: rank 0", base[0]["sizes"], " rank 1", base[1]["sizes"])
    bad = False
    # control: no logical batch is ever split -> must agree
    bad |= check("max_physical_batch_size=16 (never splits)", base, *launch(16))
    # control: batches are split, but into the same number of chunks on both ranks (2,1,2,2) -> must agree
    bad |= check("max_physical_batch_size=5 (equal chunk counts)", base, *launch(5))
    # 10 -> 3 chunks on rank 0, 8 -> 2 chunks on rank 1 in the third logical batch
    bad |= check("max_physical_batch_size=4", base, *launch(4))
    sys.exit(1 if bad else 0)
