"""
C10 violation (same root cause as stale_skip_queue.py, reached by a perfectly ordinary loop): with num_workers > 0
the DataLoader pre-fetches prefetch_factor * num_workers physical batches, i.e. BatchSplittingSampler has already
pushed their skip signals into optimizer._step_skip_queue.  Leaving the epoch early -- here with `break` right
AFTER optimizer.step() has completed a logical batch ("train for max_steps") -- leaves those signals in the
queue for ever: nothing (not the next `iter(loader)`, not BatchMemoryManager.__exit__) clears them.  The next
epoch runs with signals shifted by 4 physical batches.

Reference: the same loop without BatchMemoryManager, same sampled logical batches (checked), same noise generator.
Exit 1 when they differ.
"""
import sys, warnings
warnings.filterwarnings("ignore")
import torch, torch.nn as nn
from torch.utils.data import DataLoader, Dataset
from opacus import PrivacyEngine
from opacus.utils.batch_memory_manager import BatchMemoryManager


class DS(Dataset):
    def __init__(self):
        g = torch.Generator().manual_seed(1)
        self.x = torch.randn(40, 5, generator=g)
        self.y = torch.randint(0, 3, (40,), generator=g)
    def __len__(self): return 40
    def __getitem__(self, i): return self.x[i], self.y[i], i


def run(mode, max_phys):
    torch.manual_seed(0)
    model = nn.Sequential(nn.Linear(5, 7), nn.ReLU(), nn.Linear(7, 3))
    opt = torch.optim.SGD(model.parameters(), lr=0.1, momentum=0.9)
    dl = DataLoader(DS(), batch_size=8, num_workers=2)
    pe = PrivacyEngine(accountant="rdp")
    ng = torch.Generator().manual_seed(11)
    res = pe.make_private(module=model, optimizer=opt, data_loader=dl, criterion=nn.CrossEntropyLoss(),
                          noise_multiplier=1.0, max_grad_norm=1.0, noise_generator=ng, grad_sample_mode=mode)
    if mode == "ghost":
        model, opt, crit, dl = res
    else:
        (model, opt, dl), crit = res, nn.CrossEntropyLoss()
    updates, seen, info = [], [], {}

    def one(x, y, idx):
        assert max_phys is None or len(x) <= max_phys
        seen.extend(idx.tolist())
        opt.zero_grad()
        crit(model(x), y).backward()
        before = torch.cat([p.detach().flatten().clone() for p in model.parameters()])
        opt.step()
        after = torch.cat([p.detach().flatten().clone() for p in model.parameters()])
        stepped = max_phys is None or not torch.equal(before, after)
        if stepped:
            updates.append(after)
        return stepped

    def train(loader):
        # epoch 1: stop after 2 logical steps
        dl.batch_sampler.generator = torch.Generator().manual_seed(5)
        n = 0
        for x, y, idx in loader:
            n += one(x, y, idx)
            if n == 2:
                break
        info["queue_after_break"] = list(opt._step_skip_queue)
        # epoch 2: complete
        dl.batch_sampler.generator = torch.Generator().manual_seed(6)
        for x, y, idx in loader:
            one(x, y, idx)

    if max_phys is None:
        train(dl)
    else:
        with BatchMemoryManager(data_loader=dl, max_physical_batch_size=max_phys, optimizer=opt) as loader:
            train(loader)
    return dict(updates=updates, seen=seen, hist=list(pe.accountant.history), ng=ng.get_state(),
                queue=list(opt._step_skip_queue), pending=opt._is_last_step_skipped, **info)


if __name__ == "__main__":
    bad = False
    for mode in ["hooks", "ghost"]:
        ref, got = run(mode, None), run(mode, 3)
        assert ref["seen"] == got["seen"], "precondition: same samples in the same order"
        problems = []
        print(f"[{mode}] (info) skip queue right after the early break: {got['queue_after_break']}")
        if len(ref["updates"]) != len(got["updates"]):
            problems.append(f"number of parameter updates {len(got['updates'])} != {len(ref['updates'])}")
        d = [(a - b).abs().max().item() for a, b in zip(ref["updates"], got["updates"])]
        if d and max(d) > 1e-5:
            first = next(i for i, v in enumerate(d) if v > 1e-5)
            problems.append(f"parameters differ from logical step {first} on (max abs diff {max(d):.4f})")
        if ref["hist"] != got["hist"]:
            problems.append(f"accountant history {got['hist']} != {ref['hist']}")
        if not torch.equal(ref["ng"], got["ng"]):
            problems.append("noise generator ends in a different state (different number of noise draws)")
        if got["queue"] or got["pending"]:
            problems.append(f"after training: skip queue {got['queue']}, partial logical batch pending: {got['pending']}")
        print(f"[{mode}] " + ("OK" if not problems else "VIOLATION: " + "; ".join(problems)))
        bad |= bool(problems)
    sys.exit(1 if bad else 0)
