"""C13: on a PackedSequence the final states h_n/c_n are built in a fresh float32 tensor
(dp_rnn.py forward_layer: torch.zeros(max_batch_size, hidden_size) without dtype), so a
float64 / bfloat16 layer returns float32 final states (values rounded through float32,
gradients through h_n/c_n rounded too) while torch.nn returns the layer's dtype."""
import sys, torch, torch.nn as nn
from torch.nn.utils.rnn import pack_padded_sequence
from opacus.layers import DPLSTM, DPGRU, DPRNN

torch.manual_seed(0)
bad = []
for name, T, D, dtype in [("LSTM", nn.LSTM, DPLSTM, torch.float64), ("GRU", nn.GRU, DPGRU, torch.float64),
                          ("RNN", nn.RNN, DPRNN, torch.float64), ("GRU", nn.GRU, DPGRU, torch.bfloat16)]:
    t = T(3, 4, num_layers=2, bidirectional=True).to(dtype)
    d = D(3, 4, num_layers=2, bidirectional=True).to(dtype)
    d.load_state_dict(t.state_dict())
    x = pack_padded_sequence(torch.randn(6, 5, 3).to(dtype), [2, 6, 1, 4, 4], enforce_sorted=False)
    ot, ht = t(x)
    od, hd = d(x)
    hts = ht if isinstance(ht, tuple) else (ht,)
    hds = hd if isinstance(hd, tuple) else (hd,)
    for nm, a, b in zip(("h_n", "c_n"), hts, hds):
        if a.dtype != b.dtype:
            bad.append(f"{name} {dtype}: {nm} dtype torch={a.dtype} dp={b.dtype}")
    if dtype == torch.float64:
        # padded path of the very same layer agrees to ~1e-16; packed h_n only to float32 precision
        err = max((a - b.to(a.dtype)).abs().max().item() for a, b in zip(hts, hds))
        if err > 1e-12:
            bad.append(f"{name} {dtype}: packed final state differs from torch by {err:.2e} (float64 layer)")
        sum(h.pow(2).sum() for h in hts).backward()
        sum(h.pow(2).sum() for h in hds).backward()
        gerr = max((p.grad - dict(d.named_parameters())[n].grad).abs().max().item() for n, p in t.named_parameters())
        if gerr > 1e-12:
            bad.append(f"{name} {dtype}: parameter gradients through h_n differ by {gerr:.2e}")
for b in bad:
    print("VIOLATION:", b)
sys.exit(1 if bad else 0)
