"""C13: torch.nn.LSTM supports `lstm.weight_ih_l0 = nn.Parameter(...)` (weight tying / custom
init by assignment).  On DPLSTM the assignment is silently undone: RenameParamsMixin.__setattr__
re-runs _register_renamed_parameters(), which finds the cell's old 'l0.ih.weight' (no longer a
duplicate) and registers it again under 'weight_ih_l0', overwriting the user's parameter."""
import sys, torch, torch.nn as nn
from opacus.layers import DPLSTM

torch.manual_seed(0)
t = nn.LSTM(3, 4); d = DPLSTM(3, 4); d.load_state_dict(t.state_dict())
w = torch.full((16, 3), 0.25)
t.weight_ih_l0 = nn.Parameter(w.clone())
new = nn.Parameter(w.clone())
d.weight_ih_l0 = new
x = torch.randn(5, 2, 3)
diff = (t(x)[0] - d(x)[0]).abs().max().item()
bad = []
if d.weight_ih_l0 is not new:
    bad.append("dp.weight_ih_l0 is not the assigned Parameter (assignment silently reverted); "
               f"state_dict value equals assigned: {torch.equal(d.state_dict()['weight_ih_l0'], w)}")
if diff > 1e-6:
    bad.append(f"outputs differ from torch after identical assignment by {diff:.3f}")
for b in bad:
    print("VIOLATION:", b)
sys.exit(1 if bad else 0)
