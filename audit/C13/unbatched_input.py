"""C13: torch.nn recurrent layers accept an unbatched 2-D input (T, D) (-> output (T, P*H),
h_n (L*P, H)).  DPRNNBase.forward reads x.shape[1] (= input_size) as the batch size, the zero
state (D, H) then broadcasts against the (4H,) gate vector, and the layer silently returns
tensors of a wrong shape ((T, D, H), (L*P, D, H)) instead of the torch result or an error."""
import sys, torch, torch.nn as nn
from opacus.layers import DPLSTM, DPGRU, DPRNN

torch.manual_seed(0)
bad = []
for T, D in [(nn.LSTM, DPLSTM), (nn.GRU, DPGRU), (nn.RNN, DPRNN)]:
    t = T(3, 4); d = D(3, 4); d.load_state_dict(t.state_dict())
    x = torch.randn(5, 3)
    ot, ht = t(x)
    try:
        od, hd = d(x)
    except Exception as e:
        bad.append(f"{D.__name__}: unbatched input crashes: {e!r}"[:200]); continue
    ht = ht[0] if isinstance(ht, tuple) else ht
    hd = hd[0] if isinstance(hd, tuple) else hd
    if od.shape != ot.shape or not torch.allclose(od, ot, atol=1e-6):
        bad.append(f"{D.__name__}: unbatched input (5,3): torch out {tuple(ot.shape)} h_n {tuple(ht.shape)}; "
                   f"dp out {tuple(od.shape)} h_n {tuple(hd.shape)} (silently)")
for b in bad:
    print("VIOLATION:", b)
sys.exit(1 if bad else 0)
