"""C13: torch.nn.RNN's positional signature is (input_size, hidden_size, num_layers, nonlinearity,
bias, batch_first, dropout, bidirectional); DPRNN's is (..., num_layers, bias, batch_first, ...,
nonlinearity last).  DPRNN(3, 4, 1, 'relu') is accepted silently with bias='relu' (truthy) and
nonlinearity='tanh', so the "drop-in" layer computes a tanh RNN."""
import sys, torch, torch.nn as nn
from opacus.layers import DPRNN

torch.manual_seed(0)
args = (3, 4, 1, "relu")
t = nn.RNN(*args); d = DPRNN(*args); d.load_state_dict(t.state_dict())
x = torch.randn(5, 2, 3)
diff = (t(x)[0] - d(x)[0]).abs().max().item()
if diff > 1e-6:
    print(f"VIOLATION: nn.RNN{args} is {t.nonlinearity}; DPRNN{args} has nonlinearity={d.l0.nonlinearity!r}, bias={d.bias!r}; outputs differ by {diff:.3f}")
    sys.exit(1)
sys.exit(0)
