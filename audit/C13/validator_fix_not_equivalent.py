"""C13 (opacus/validators/lstm.py): the nn.LSTM -> DPLSTM fixer builds a fresh DPLSTM and only
load_state_dict()s into it.  dtype, train/eval mode and requires_grad flags of the original are
lost: an eval-mode LSTM with dropout becomes a training-mode DPLSTM (dropout active in an eval
model -> different outputs), a float64 LSTM becomes float32 (weights silently rounded, double
inputs now crash), frozen parameters become trainable."""
import sys, torch, torch.nn as nn
from opacus.validators import ModuleValidator

torch.manual_seed(0)
bad = []
class M(nn.Module):
    def __init__(self):
        super().__init__()
        self.rnn = nn.LSTM(3, 4, num_layers=2, dropout=0.5)
    def forward(self, x):
        return self.rnn(x)[0]

x = torch.randn(6, 5, 3)
m = M().eval()
f = ModuleValidator.fix(m)
if f.rnn.training != m.rnn.training:
    diff = (m(x) - f(x)).abs().max().item()
    bad.append(f"eval-mode model: fixed rnn.training={f.rnn.training} (model.training={f.training}); output differs by {diff:.3f}")

m = M(); m.rnn.bias_hh_l0.requires_grad_(False); m.rnn.weight_ih_l1.requires_grad_(False)
f = ModuleValidator.fix(m)
lost = [n for n, p in m.rnn.named_parameters() if not p.requires_grad and dict(f.rnn.named_parameters())[n].requires_grad]
if lost:
    bad.append(f"frozen parameters became trainable after fix: {lost}")

m = M().double()
f = ModuleValidator.fix(m)
if f.rnn.weight_ih_l0.dtype != m.rnn.weight_ih_l0.dtype:
    msg = f"float64 LSTM fixed to {f.rnn.weight_ih_l0.dtype} DPLSTM"
    try:
        f(x.double()); msg += " (double input still runs)"
    except Exception as e:
        msg += f"; double input now raises {type(e).__name__}: {str(e)[:80]}"
    bad.append(msg)
for b in bad:
    print("VIOLATION:", b)
sys.exit(1 if bad else 0)
