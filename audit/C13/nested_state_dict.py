"""C13: the rename filter (param_rename.filter_out_old_keys) compares *prefixed* keys with the
un-prefixed rename map and returns a new dict that nn.Module.state_dict discards for children.
So as soon as a DP recurrent layer is a sub-module (the normal case, also under GradSampleModule),
the model's state_dict contains BOTH 'rnn.weight_ih_l0' and 'rnn.l0.ih.weight' ..., and
checkpoints do not move in either direction with the default strict=True."""
import sys, torch, torch.nn as nn
from opacus.layers import DPLSTM, DPGRU, DPRNN

class M(nn.Module):
    def __init__(self, cls):
        super().__init__()
        self.rnn = cls(3, 4, num_layers=2, bidirectional=True)
        self.out = nn.Linear(8, 2)

bad = []
for T, D in [(nn.LSTM, DPLSTM), (nn.GRU, DPGRU), (nn.RNN, DPRNN)]:
    mt, md = M(T), M(D)
    extra = sorted(set(md.state_dict()) - set(mt.state_dict()))
    if extra:
        bad.append(f"{D.__name__} nested: {len(extra)} extra state_dict keys, e.g. {extra[:3]}")
    try:
        md.load_state_dict(mt.state_dict())
    except RuntimeError as e:
        bad.append(f"{D.__name__} nested: loading the torch checkpoint fails: {str(e).splitlines()[1][:110]}...")
    try:
        mt.load_state_dict(md.state_dict())
    except RuntimeError as e:
        bad.append(f"{D.__name__} nested: torch model cannot load the DP checkpoint: {str(e).splitlines()[1][:110]}...")
for b in bad:
    print("VIOLATION:", b)
sys.exit(1 if bad else 0)
