"""C16: in ghost-clipping mode a second engine cannot be built in the same process, so a checkpoint
cannot be loaded "into a freshly constructed engine, model, optimizer".

make_private(..., grad_sample_mode="ghost") has the default argument criterion=nn.CrossEntropyLoss():
ONE object shared by every call.  DPLossFastGradientClipping.__init__ sets criterion.reduction = "none"
on it, so the next make_private (new engine, new model, new optimizer -- the resume in a test, a notebook
or a sweep) fails its own assertion "loss_reduction should be the same across ...".  The same happens
when the user passes the same criterion object to both runs.
Expected: save, build everything afresh, load, epsilon equal, continue.
"""
import os, sys, io
# ---- helper (inlined so that the script is self-contained) ----
import warnings
warnings.filterwarnings("ignore")
import torch
import torch.nn as nn
from torch.utils.data import DataLoader, TensorDataset
from opacus import PrivacyEngine


def build(accountant="rdp", noise_multiplier=1.1, model_seed=0, engine_cls=PrivacyEngine, momentum=0.9, **mp_kwargs):
    """Fresh engine, model, optimizer, loader.  The data set is always the same."""
    torch.manual_seed(model_seed)
    model = nn.Sequential(nn.Linear(4, 8), nn.ReLU(), nn.Linear(8, 2))
    opt = torch.optim.SGD(model.parameters(), lr=0.1, momentum=momentum)
    torch.manual_seed(1234)
    ds = TensorDataset(torch.randn(128, 4), torch.randint(0, 2, (128,)))
    dl = DataLoader(ds, batch_size=32)
    eng = engine_cls(accountant=accountant)
    gen = torch.Generator().manual_seed(99)
    out = eng.make_private(
        module=model, optimizer=opt, data_loader=dl,
        noise_multiplier=noise_multiplier, max_grad_norm=1.0,
        noise_generator=gen, poisson_sampling=False, **mp_kwargs,
    )
    return eng, out, gen


def train(model, opt, batches, criterion=None, scheds=()):
    for x, y in batches:
        opt.zero_grad()
        if criterion is None:
            nn.functional.cross_entropy(model(x), y).backward()
        else:
            criterion(model(x), y).backward()
        opt.step()
        for s in scheds:
            s.step()
# ---- end of helper ----

eng, (m, o, c, d), g = build("rdp", grad_sample_mode="ghost")      # default criterion
batches = list(d) * 2
train(m, o, batches[:3], criterion=c)
buf = io.BytesIO()
eng.save_checkpoint(path=buf, module=m, optimizer=o)
eps = eng.get_epsilon(1e-5)
try:
    eng2, (m2, o2, c2, d2), g2 = build("rdp", model_seed=3, grad_sample_mode="ghost")
except AssertionError as e:
    print("VIOLATION")
    print(f"second make_private(grad_sample_mode='ghost') with the default criterion raised AssertionError: {e}")
    print("the shared default criterion now has reduction =", repr(c.criterion.reduction))
    sys.exit(1)
buf.seek(0)
eng2.load_checkpoint(path=buf, module=m2, optimizer=o2)
assert eng2.get_epsilon(1e-5) == eps
train(m2, o2, batches[3:5], criterion=c2)
print("ok")
