"""C16: IAccountant.load_state_dict keeps a reference to the caller's history list.

Expected (property): loading a saved accountant state restores the history that was saved,
every time it is loaded; epsilon right after loading equals epsilon at saving.
Observed: load_state_dict does `self.history = state_dict["history"]` (no copy), and step()
mutates that list in place (pop/append).  So the saved state changes while training goes on:
loading the same snapshot a second time (roll back to the best epoch, or the dict returned by
load_checkpoint) gives the *current* ledger for rdp/prv and an EMPTY ledger for gdp.
"""
import os, sys
# ---- helper (inlined so that the script is self-contained) ----
import warnings
warnings.filterwarnings("ignore")
import torch
import torch.nn as nn
from torch.utils.data import DataLoader, TensorDataset
from opacus import PrivacyEngine


def build(accountant="rdp", noise_multiplier=1.1, model_seed=0, engine_cls=PrivacyEngine, momentum=0.9, **mp_kwargs):
    """Fresh engine, model, optimizer, loader.  The data set is always the same."""
    torch.manual_seed(model_seed)
    model = nn.Sequential(nn.Linear(4, 8), nn.ReLU(), nn.Linear(8, 2))
    opt = torch.optim.SGD(model.parameters(), lr=0.1, momentum=momentum)
    torch.manual_seed(1234)
    ds = TensorDataset(torch.randn(128, 4), torch.randint(0, 2, (128,)))
    dl = DataLoader(ds, batch_size=32)
    eng = engine_cls(accountant=accountant)
    gen = torch.Generator().manual_seed(99)
    out = eng.make_private(
        module=model, optimizer=opt, data_loader=dl,
        noise_multiplier=noise_multiplier, max_grad_norm=1.0,
        noise_generator=gen, poisson_sampling=False, **mp_kwargs,
    )
    return eng, out, gen


def train(model, opt, batches, criterion=None, scheds=()):
    for x, y in batches:
        opt.zero_grad()
        if criterion is None:
            nn.functional.cross_entropy(model(x), y).backward()
        else:
            criterion(model(x), y).backward()
        opt.step()
        for s in scheds:
            s.step()
# ---- end of helper ----
import copy

bad = []
for acc in ("rdp", "prv", "gdp"):
    eng, (m, o, d), g = build(acc)
    batches = list(d) * 4
    train(m, o, batches[:5])
    snapshot = eng.accountant.state_dict()            # in-memory checkpoint at step 5
    hist5 = copy.deepcopy(snapshot["history"])
    eps5 = eng.get_epsilon(1e-5)

    train(m, o, batches[5:8])
    eng.accountant.load_state_dict(snapshot)          # roll back to step 5 (first time: fine)
    if eng.accountant.history != hist5:
        bad.append(f"{acc}: first load gave {eng.accountant.history}, saved {hist5}")
    train(m, o, batches[8:11])                        # this silently edits `snapshot`
    eng.accountant.load_state_dict(snapshot)          # roll back to step 5 again
    if eng.accountant.history != hist5:
        try:
            eps = eng.get_epsilon(1e-5)
        except Exception as e:
            eps = f"{type(e).__name__}: {e}"
        bad.append(f"{acc}: snapshot taken at step 5 was {hist5}; after 3 more steps the same snapshot object "
                   f"holds {snapshot['history']}; loading it gives history {eng.accountant.history}, "
                   f"epsilon {eps} instead of {eps5}")

# the same through the engine: the dict returned by load_checkpoint is the live ledger
import io
eng, (m, o, d), g = build("rdp")
batches = list(d) * 4
train(m, o, batches[:5])
buf = io.BytesIO()
eng.save_checkpoint(path=buf, module=m, optimizer=o)
eng2, (m2, o2, d2), g2 = build("rdp", model_seed=3)
buf.seek(0)
ck = eng2.load_checkpoint(path=buf, module=m2, optimizer=o2)
before = copy.deepcopy(ck["privacy_accountant_state_dict"]["history"])
train(m2, o2, batches[5:8])
after = ck["privacy_accountant_state_dict"]["history"]
if after != before:
    bad.append(f"engine: checkpoint dict returned by load_checkpoint held history {before}; after 3 steps of the "
               f"resumed run the same dict holds {after}")

if bad:
    print("VIOLATION")
    print("\n".join(bad))
    sys.exit(1)
print("ok")
