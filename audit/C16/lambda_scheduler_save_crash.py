"""C16: save_checkpoint with a LambdaNoise / LambdaGradClip scheduler built from a lambda.

Expected (property): the checkpoint is written, and loading it into a freshly built
scheduler restores the scheduler state (last_epoch, base value).
Observed: torch.save raises PicklingError because the scheduler's state_dict contains the
user's function, and the checkpoint file that already existed at `path` is destroyed.
"""
import os, sys, tempfile
# ---- helper (inlined so that the script is self-contained) ----
import warnings
warnings.filterwarnings("ignore")
import torch
import torch.nn as nn
from torch.utils.data import DataLoader, TensorDataset
from opacus import PrivacyEngine


def build(accountant="rdp", noise_multiplier=1.1, model_seed=0, engine_cls=PrivacyEngine, momentum=0.9, **mp_kwargs):
    """Fresh engine, model, optimizer, loader.  The data set is always the same."""
    torch.manual_seed(model_seed)
    model = nn.Sequential(nn.Linear(4, 8), nn.ReLU(), nn.Linear(8, 2))
    opt = torch.optim.SGD(model.parameters(), lr=0.1, momentum=momentum)
    torch.manual_seed(1234)
    ds = TensorDataset(torch.randn(128, 4), torch.randint(0, 2, (128,)))
    dl = DataLoader(ds, batch_size=32)
    eng = engine_cls(accountant=accountant)
    gen = torch.Generator().manual_seed(99)
    out = eng.make_private(
        module=model, optimizer=opt, data_loader=dl,
        noise_multiplier=noise_multiplier, max_grad_norm=1.0,
        noise_generator=gen, poisson_sampling=False, **mp_kwargs,
    )
    return eng, out, gen


def train(model, opt, batches, criterion=None, scheds=()):
    for x, y in batches:
        opt.zero_grad()
        if criterion is None:
            nn.functional.cross_entropy(model(x), y).backward()
        else:
            criterion(model(x), y).backward()
        opt.step()
        for s in scheds:
            s.step()
# ---- end of helper ----
import torch
from opacus.schedulers import LambdaNoise, LambdaGradClip

bad = []
eng, (m, o, d), g = build("rdp")
ns = LambdaNoise(o, noise_lambda=lambda e: 0.95 ** e)
gs = LambdaGradClip(o, scheduler_function=lambda e: 0.9 ** e)
batches = list(d)
train(m, o, batches[:3], scheds=(ns, gs))

path = os.path.join(tempfile.mkdtemp(), "ckpt.pt")
eng.save_checkpoint(path=path, module=m, optimizer=o)          # a good checkpoint, no schedulers
size_good = os.path.getsize(path)

for name, kw in (("noise_scheduler", {"noise_scheduler": ns}), ("grad_clip_scheduler", {"grad_clip_scheduler": gs})):
    try:
        eng.save_checkpoint(path=path, module=m, optimizer=o, **kw)
    except Exception as e:
        bad.append(f"save_checkpoint({name}=Lambda...(lambda)) raised {type(e).__name__}: {e}")
        try:
            torch.load(path, weights_only=False)
        except Exception as e2:
            bad.append(f"  and the previous good checkpoint at the same path ({size_good} bytes) is now "
                       f"{os.path.getsize(path)} bytes and unreadable: {type(e2).__name__}")
        eng.save_checkpoint(path=path, module=m, optimizer=o)   # restore a good file for the next round
        continue
    # saved: then a fresh scheduler must get the state back
    eng2, (m2, o2, d2), g2 = build("rdp", model_seed=5)
    ns2 = LambdaNoise(o2, noise_lambda=lambda e: 0.95 ** e)
    gs2 = LambdaGradClip(o2, scheduler_function=lambda e: 0.9 ** e)
    eng2.load_checkpoint(path=path, module=m2, optimizer=o2,
                         noise_scheduler=ns2 if name == "noise_scheduler" else None,
                         grad_clip_scheduler=gs2 if name == "grad_clip_scheduler" else None)
    old, new = (ns, ns2) if name == "noise_scheduler" else (gs, gs2)
    if new.last_epoch != old.last_epoch:
        bad.append(f"{name}: last_epoch {new.last_epoch} after load, {old.last_epoch} at saving")

if bad:
    print("VIOLATION")
    print("\n".join(bad))
    sys.exit(1)
print("ok")
