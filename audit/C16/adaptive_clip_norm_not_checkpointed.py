"""C16: the clipping norm learned by adaptive clipping is not in the checkpoint.

Two configurations, no scheduler involved:
  (a) make_private(clipping="adaptive")                -> AdaClipDPOptimizer
  (b) PrivacyEngineAdaptiveClipping, grad_sample_mode="ghost"
Both update optimizer.max_grad_norm (and module.max_grad_norm for b) on every step as part of the
algorithm.  DPOptimizer.state_dict() is only the wrapped optimizer's state_dict, so the value is lost.
Expected (property): after load, k more steps with the same batches and the same noise generator
state give the same parameters as the uninterrupted run.
Observed: the resumed run clips with the initial max_grad_norm again and the parameters differ.
"""
import os, sys, io
# ---- helper (inlined so that the script is self-contained) ----
import warnings
warnings.filterwarnings("ignore")
import torch
import torch.nn as nn
from torch.utils.data import DataLoader, TensorDataset
from opacus import PrivacyEngine


def build(accountant="rdp", noise_multiplier=1.1, model_seed=0, engine_cls=PrivacyEngine, momentum=0.9, **mp_kwargs):
    """Fresh engine, model, optimizer, loader.  The data set is always the same."""
    torch.manual_seed(model_seed)
    model = nn.Sequential(nn.Linear(4, 8), nn.ReLU(), nn.Linear(8, 2))
    opt = torch.optim.SGD(model.parameters(), lr=0.1, momentum=momentum)
    torch.manual_seed(1234)
    ds = TensorDataset(torch.randn(128, 4), torch.randint(0, 2, (128,)))
    dl = DataLoader(ds, batch_size=32)
    eng = engine_cls(accountant=accountant)
    gen = torch.Generator().manual_seed(99)
    out = eng.make_private(
        module=model, optimizer=opt, data_loader=dl,
        noise_multiplier=noise_multiplier, max_grad_norm=1.0,
        noise_generator=gen, poisson_sampling=False, **mp_kwargs,
    )
    return eng, out, gen


def train(model, opt, batches, criterion=None, scheds=()):
    for x, y in batches:
        opt.zero_grad()
        if criterion is None:
            nn.functional.cross_entropy(model(x), y).backward()
        else:
            criterion(model(x), y).backward()
        opt.step()
        for s in scheds:
            s.step()
# ---- end of helper ----
import torch
import torch.nn as nn
from opacus.utils.adaptive_clipping.adaptive_clipping_utils import PrivacyEngineAdaptiveClipping

bad = []

def run(label, ghost):
    def kwargs():
        if ghost:  # a new criterion object every time: make_private rewrites criterion.reduction
            return dict(engine_cls=PrivacyEngineAdaptiveClipping, grad_sample_mode="ghost", criterion=nn.CrossEntropyLoss(),
                        target_unclipped_quantile=0.5, clipbound_learning_rate=0.5, max_clipbound=10.0, min_clipbound=0.01)
        return dict(clipping="adaptive", target_unclipped_quantile=0.5, clipbound_learning_rate=0.5,
                    max_clipbound=10.0, min_clipbound=0.01, unclipped_num_std=2.0)
    def unpack(out):
        return (out[0], out[1], out[2], out[3]) if ghost else (out[0], out[1], None, out[2])
    eng, out, g = build("rdp", **kwargs())
    m, o, c, d = unpack(out)
    batches = list(d) * 4
    torch.manual_seed(7)
    train(m, o, batches[:5], criterion=c)
    buf = io.BytesIO()
    eng.save_checkpoint(path=buf, module=m, optimizer=o)
    gstate, rstate = g.get_state(), torch.get_rng_state()
    norm_saved = float(o.max_grad_norm)
    eps_saved = eng.get_epsilon(1e-5)
    train(m, o, batches[5:8], criterion=c)
    ref = {k: v.detach().clone() for k, v in m.named_parameters()}

    eng2, out2, g2 = build("rdp", model_seed=3, **kwargs())
    m2, o2, c2, d2 = unpack(out2)
    buf.seek(0)
    eng2.load_checkpoint(path=buf, module=m2, optimizer=o2)
    g2.set_state(gstate); torch.set_rng_state(rstate)
    norm_loaded = float(o2.max_grad_norm)
    assert eng2.get_epsilon(1e-5) == eps_saved
    train(m2, o2, batches[5:8], criterion=c2)
    diff = max((ref[k] - v).abs().max().item() for k, v in m2.named_parameters())
    if diff != 0.0:
        bad.append(f"{label}: max_grad_norm at saving {norm_saved:.6f}, after load {norm_loaded:.6f}; "
                   f"after 3 more steps parameters differ from the uninterrupted run by {diff:.3e}")

run("AdaClipDPOptimizer (clipping='adaptive')", ghost=False)
run("PrivacyEngineAdaptiveClipping (ghost)", ghost=True)

if bad:
    print("VIOLATION")
    print("\n".join(bad))
    sys.exit(1)
print("ok")
