"""C16: a refused step of GaussianAccountant erases the restored privacy ledger.

Scenario: train 5 steps with accountant="gdp", save.  Resume in a fresh engine that was (by
mistake) built with another noise multiplier, load the checkpoint.  The first step is refused
with "Noise multiplier and sample rate have to stay constant" -- an explicit refusal, fine.
Expected (property): the ledger restored from the checkpoint is still there after the refusal.
Observed: GaussianAccountant.step pops the last history entry BEFORE it validates, so the
exception leaves history == [].  The user corrects optimizer.noise_multiplier and goes on in
the same process: the ledger now counts from 1 and epsilon is far below the value at saving.
"""
import os, sys, io
# ---- helper (inlined so that the script is self-contained) ----
import warnings
warnings.filterwarnings("ignore")
import torch
import torch.nn as nn
from torch.utils.data import DataLoader, TensorDataset
from opacus import PrivacyEngine


def build(accountant="rdp", noise_multiplier=1.1, model_seed=0, engine_cls=PrivacyEngine, momentum=0.9, **mp_kwargs):
    """Fresh engine, model, optimizer, loader.  The data set is always the same."""
    torch.manual_seed(model_seed)
    model = nn.Sequential(nn.Linear(4, 8), nn.ReLU(), nn.Linear(8, 2))
    opt = torch.optim.SGD(model.parameters(), lr=0.1, momentum=momentum)
    torch.manual_seed(1234)
    ds = TensorDataset(torch.randn(128, 4), torch.randint(0, 2, (128,)))
    dl = DataLoader(ds, batch_size=32)
    eng = engine_cls(accountant=accountant)
    gen = torch.Generator().manual_seed(99)
    out = eng.make_private(
        module=model, optimizer=opt, data_loader=dl,
        noise_multiplier=noise_multiplier, max_grad_norm=1.0,
        noise_generator=gen, poisson_sampling=False, **mp_kwargs,
    )
    return eng, out, gen


def train(model, opt, batches, criterion=None, scheds=()):
    for x, y in batches:
        opt.zero_grad()
        if criterion is None:
            nn.functional.cross_entropy(model(x), y).backward()
        else:
            criterion(model(x), y).backward()
        opt.step()
        for s in scheds:
            s.step()
# ---- end of helper ----

bad = []
eng, (m, o, d), g = build("gdp", noise_multiplier=1.1)
batches = list(d) * 4
train(m, o, batches[:5])
buf = io.BytesIO()
eng.save_checkpoint(path=buf, module=m, optimizer=o)
eps_saved = eng.get_epsilon(1e-5)
hist_saved = list(eng.accountant.history)

eng2, (m2, o2, d2), g2 = build("gdp", noise_multiplier=1.0, model_seed=3)   # wrong sigma on resume
buf.seek(0)
eng2.load_checkpoint(path=buf, module=m2, optimizer=o2)
assert eng2.get_epsilon(1e-5) == eps_saved
try:
    train(m2, o2, batches[5:6])
    refused = False
except ValueError as e:
    refused = True
    msg = str(e)
if not refused:
    bad.append("a step with another noise multiplier was accepted by the gdp accountant")
else:
    if eng2.accountant.history != hist_saved:
        bad.append(f"step refused ({msg!r}); ledger before the refusal {hist_saved}, after it {eng2.accountant.history}")
    # user fixes the configuration and continues
    o2.noise_multiplier = 1.1
    train(m2, o2, batches[5:8])
    eps_after = eng2.get_epsilon(1e-5)
    # uninterrupted reference
    train(m, o, batches[5:8])
    eps_ref = eng.get_epsilon(1e-5)
    if eng2.accountant.history != eng.accountant.history:
        bad.append(f"after correcting sigma and 3 more steps: resumed ledger {eng2.accountant.history} "
                   f"(epsilon {eps_after:.4f}), uninterrupted run {eng.accountant.history} (epsilon {eps_ref:.4f}); "
                   f"epsilon at saving was {eps_saved:.4f}")

if bad:
    print("VIOLATION")
    print("\n".join(bad))
    sys.exit(1)
print("ok")
