"""C16 (minor): load_checkpoint(torch_load_kwargs={"weights_only": ...}) always raises TypeError.

load_checkpoint documents torch_load_kwargs as kwargs for torch.load, but calls
torch.load(path, **torch_load_kwargs, weights_only=False): passing weights_only (even False, the
value the library itself needs) dies with "got multiple values for keyword argument".
Expected: the checkpoint is loaded (weights_only=False) or a clear message says the option is unsupported.
"""
import os, sys, io
# ---- helper (inlined so that the script is self-contained) ----
import warnings
warnings.filterwarnings("ignore")
import torch
import torch.nn as nn
from torch.utils.data import DataLoader, TensorDataset
from opacus import PrivacyEngine


def build(accountant="rdp", noise_multiplier=1.1, model_seed=0, engine_cls=PrivacyEngine, momentum=0.9, **mp_kwargs):
    """Fresh engine, model, optimizer, loader.  The data set is always the same."""
    torch.manual_seed(model_seed)
    model = nn.Sequential(nn.Linear(4, 8), nn.ReLU(), nn.Linear(8, 2))
    opt = torch.optim.SGD(model.parameters(), lr=0.1, momentum=momentum)
    torch.manual_seed(1234)
    ds = TensorDataset(torch.randn(128, 4), torch.randint(0, 2, (128,)))
    dl = DataLoader(ds, batch_size=32)
    eng = engine_cls(accountant=accountant)
    gen = torch.Generator().manual_seed(99)
    out = eng.make_private(
        module=model, optimizer=opt, data_loader=dl,
        noise_multiplier=noise_multiplier, max_grad_norm=1.0,
        noise_generator=gen, poisson_sampling=False, **mp_kwargs,
    )
    return eng, out, gen


def train(model, opt, batches, criterion=None, scheds=()):
    for x, y in batches:
        opt.zero_grad()
        if criterion is None:
            nn.functional.cross_entropy(model(x), y).backward()
        else:
            criterion(model(x), y).backward()
        opt.step()
        for s in scheds:
            s.step()
# ---- end of helper ----

eng, (m, o, d), g = build("rdp")
train(m, o, list(d)[:2])
buf = io.BytesIO()
eng.save_checkpoint(path=buf, module=m, optimizer=o)
eps = eng.get_epsilon(1e-5)
eng2, (m2, o2, d2), g2 = build("rdp", model_seed=3)
buf.seek(0)
try:
    eng2.load_checkpoint(path=buf, module=m2, optimizer=o2, torch_load_kwargs={"weights_only": False})
except TypeError as e:
    print("VIOLATION")
    print(f"load_checkpoint(torch_load_kwargs={{'weights_only': False}}) raised TypeError: {e}")
    sys.exit(1)
assert eng2.get_epsilon(1e-5) == eps
print("ok")
