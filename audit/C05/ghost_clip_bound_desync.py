"""
C05 - with grad_sample_mode="ghost" the clipping bound lives on the wrapped module
(GradSampleModuleFastGradientClipping.max_grad_norm, used by get_clipping_coef) while the
noise is scaled by the optimizer's own copy (std = optimizer.noise_multiplier *
optimizer.max_grad_norm).  Nothing keeps the two in sync:
  (a) a _GradClipScheduler (ExponentialGradClip/StepGradClip/LambdaGradClip) only changes
      optimizer.max_grad_norm;
  (b) a second make_private() on the same engine with the already wrapped module returns
      the module untouched (privacy_engine._prepare_model) and builds a new optimizer with
      the new max_grad_norm.
In both cases per-sample gradients are still clipped to the OLD bound and the noise is
calibrated to the NEW (smaller) one, so the noise multiplier in force is
sigma * C_new / C_old, but the accountant records sigma.

Measurement: batches of ONE sample whose gradient is far above the bound, so the norm of
the clipped sum (p.summed_grad) is the bound in force; noise = p.grad*B - p.summed_grad.
Property: every recorded step carries the noise multiplier in force (noise std / bound).
"""
import sys
import warnings

warnings.filterwarnings("ignore")
import torch
import torch.nn as nn
from opacus import PrivacyEngine
from opacus.schedulers import ExponentialGradClip
from torch.utils.data import DataLoader, TensorDataset

N, D = 8, 4000


def setup(max_grad_norm):
    torch.manual_seed(0)
    ds = TensorDataset(torch.randn(N, D) * 10, torch.randint(0, 2, (N,)))
    dl = DataLoader(ds, batch_size=1)
    model = nn.Linear(D, 2)
    nn.init.zeros_(model.weight)
    nn.init.zeros_(model.bias)  # p = 1/2 -> |grad| ~ 0.7*|x| >> bound
    opt = torch.optim.SGD(model.parameters(), lr=0.0)
    eng = PrivacyEngine(accountant="rdp")
    model, opt, crit, dl = eng.make_private(
        module=model,
        optimizer=opt,
        data_loader=dl,
        criterion=nn.CrossEntropyLoss(),
        noise_multiplier=1.0,
        max_grad_norm=max_grad_norm,
        grad_sample_mode="ghost",
        poisson_sampling=False,
    )
    return eng, model, opt, crit, dl


def one_step(eng, model, opt, crit, dl):
    x, y = next(iter(dl))
    opt.zero_grad()
    crit(model(x), y).backward()
    opt.step()
    ps = list(model.parameters())
    bound = torch.sqrt(sum((p.summed_grad**2).sum() for p in ps)).item()
    noise = torch.cat(
        [(p.grad * opt.expected_batch_size - p.summed_grad).flatten() for p in ps]
    )
    eff = noise.std().item() / bound
    rec = eng.accountant.history[-1][0]
    print(
        f"  clipped norm of the sample={bound:.3f}  noise std={noise.std().item():.3f}  "
        f"-> noise multiplier in force={eff:.3f}; recorded={rec}"
    )
    return eff, rec


bad = []

print("(a) ExponentialGradClip(gamma=0.25) on a ghost-clipping optimizer")
eng, model, opt, crit, dl = setup(4.0)
sched = ExponentialGradClip(opt, gamma=0.25)
for epoch in range(3):
    print(f" epoch {epoch}: optimizer.max_grad_norm={float(opt.max_grad_norm)} module.max_grad_norm={model.max_grad_norm}")
    eff, rec = one_step(eng, model, opt, crit, dl)
    if abs(eff - rec) > 0.1 * rec:
        bad.append(f"(a) epoch {epoch}: in force {eff:.3f}, recorded {rec}")
    sched.step()

print("(b) second make_private(max_grad_norm=0.5) after make_private(max_grad_norm=4.0)")
eng, model, opt, crit, dl0 = setup(4.0)
model, opt, crit, dl = eng.make_private(
    module=model,
    optimizer=opt,
    data_loader=DataLoader(dl0.dataset, batch_size=1),
    criterion=nn.CrossEntropyLoss(),
    noise_multiplier=1.0,
    max_grad_norm=0.5,
    grad_sample_mode="ghost",
    poisson_sampling=False,
)
print(f" optimizer.max_grad_norm={opt.max_grad_norm} module.max_grad_norm={model.max_grad_norm}")
eff, rec = one_step(eng, model, opt, crit, dl)
if abs(eff - rec) > 0.1 * rec:
    bad.append(f"(b) in force {eff:.3f}, recorded {rec}")

if bad:
    print("VIOLATION: recorded noise multiplier is not the one in force")
    for b in bad:
        print("  " + b)
    sys.exit(1)
sys.exit(0)
