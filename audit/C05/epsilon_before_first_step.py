"""
C05 (minor) - "the reported epsilon depends only on the multiset of recorded steps":
for the empty multiset (engine created / make_private done, no optimizer step yet)
rdp reports 0, but the DEFAULT accountant (prv) and gdp crash:
  prv: ValueError: cannot convert float NaN to integer   (prv.py:_get_domain, 0 compositions)
  gdp: IndexError: list index out of range                (gdp.py: self.history[-1])
Typical trigger: logging engine.get_epsilon(delta) at "epoch 0" before training.
Also: len(accountant) is documented as "number of optimization steps taken so far" but
returns the number of run-length groups (1 after 5 identical steps).
"""
import sys
import warnings

warnings.filterwarnings("ignore")
from opacus import PrivacyEngine

bad = []
for acc in ["rdp", "prv", "gdp"]:
    eng = PrivacyEngine(accountant=acc)
    try:
        e = eng.get_epsilon(1e-5)
        print(f"{acc}: epsilon with no recorded step = {e}")
        if e != 0:
            bad.append(f"{acc}: epsilon {e} for an empty history")
    except Exception as ex:
        print(f"{acc}: get_epsilon with no recorded step raised {type(ex).__name__}: {ex}")
        bad.append(f"{acc}: {type(ex).__name__}")
    for _ in range(5):
        eng.accountant.step(noise_multiplier=1.0, sample_rate=0.1)
    print(f"{acc}: after 5 steps len(accountant) = {len(eng.accountant)}")
    if len(eng.accountant) != 5:
        bad.append(f"{acc}: len(accountant)={len(eng.accountant)} after 5 steps")
if bad:
    print("VIOLATION: " + "; ".join(bad))
    sys.exit(1)
sys.exit(0)
