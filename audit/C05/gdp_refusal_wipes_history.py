"""
C05 - GaussianAccountant.step() pops its history *before* it refuses a changed
noise multiplier / sample rate.  The refusal (ValueError) therefore erases every step
recorded so far; the following steps are then accepted silently and accounted as if
training had started from scratch.

History: 8 noised steps at sigma=1.0, then a noise scheduler lowers sigma to 0.5.
 - the first step at 0.5 is refused (fine, explicit) and does not change the model,
 - but accountant.history is now [] and the next 7 steps (which DO update the model)
   are recorded as the only steps ever taken.
Property: one recorded step for each noised update; epsilon depends on the multiset of
recorded steps -> the 8 first updates must still be in the accountant.
"""
import sys
import warnings

warnings.filterwarnings("ignore")
import torch
import torch.nn as nn
from opacus import PrivacyEngine
from opacus.schedulers import StepNoise
from torch.utils.data import DataLoader, TensorDataset

torch.manual_seed(0)
ds = TensorDataset(torch.randn(64, 4), torch.randint(0, 2, (64,)))
dl = DataLoader(ds, batch_size=8)
model = nn.Linear(4, 2)
opt = torch.optim.SGD(model.parameters(), lr=0.1)
eng = PrivacyEngine(accountant="gdp")
model, opt, dl = eng.make_private(
    module=model, optimizer=opt, data_loader=dl, noise_multiplier=1.0, max_grad_norm=1.0
)
sched = StepNoise(opt, step_size=1, gamma=0.5)
crit = nn.CrossEntropyLoss()

noised_updates = 0  # optimizer steps that really changed the parameters
refused = 0
for epoch in range(2):
    for x, y in dl:
        opt.zero_grad()
        crit(model(x), y).backward()
        before = [p.detach().clone() for p in model.parameters()]
        try:
            opt.step()
        except ValueError as e:  # the accountant's explicit refusal
            refused += 1
            print(f"refused: {e}")
            print(f"  history right after the refusal: {eng.accountant.history}")
        if any((a != b).any() for a, b in zip(before, model.parameters())):
            noised_updates += 1
    sched.step()

recorded = sum(n for _, _, n in eng.accountant.history)
print(f"noised updates applied to the model : {noised_updates}")
print(f"steps held by the accountant        : {recorded}  {eng.accountant.history}")
print(f"reported epsilon                    : {eng.get_epsilon(1e-5):.3f}")
if recorded != noised_updates:
    print(
        "VIOLATION: the refusal erased the steps recorded before it; "
        f"{noised_updates - recorded} noised updates are not accounted"
    )
    sys.exit(1)
sys.exit(0)
