"""
C05 - "one recorded step for an empty Poisson batch" holds for DPOptimizer,
DPPerLayerOptimizer, DistributedDPOptimizer and the ghost optimizers, but two optimizer
variants crash on the empty batch that Poisson sampling legitimately produces:

  * AdaClipDPOptimizer.clip_and_accumulate  (adaclipoptimizer.py:94)
        g.view(len(g), -1)          -> RuntimeError on a (0, ...) tensor
    (the parent DPOptimizer.clip_and_accumulate has an explicit empty-batch branch,
     the override lost it)
  * DistributedPerLayerOptimizer / _clip_and_accumulate_parameter (ddp_perlayeroptimizer.py:30)
        p.grad_sample.view(len(p.grad_sample), -1)   -> same RuntimeError, raised inside
        the backward hook

Expected: as for the other optimizers, the empty batch yields a noise-only update and
exactly one recorded step (sigma, q).
"""
import sys
import tempfile
import warnings

warnings.filterwarnings("ignore")
import torch
import torch.distributed as dist
import torch.nn as nn
from opacus import PrivacyEngine
from torch.nn.parallel import DistributedDataParallel as DDP
from torch.utils.data import DataLoader, TensorDataset

dist.init_process_group(
    "gloo", store=dist.FileStore(tempfile.mktemp(), 1), rank=0, world_size=1
)


def run(name, distributed, clipping, **kw):
    torch.manual_seed(0)
    N = 6
    ds = TensorDataset(torch.randn(N, 4), torch.randint(0, 2, (N,)))
    dl = DataLoader(ds, batch_size=1)  # q = 1/6: empty Poisson batches are frequent
    model = nn.Sequential(nn.Linear(4, 3), nn.ReLU(), nn.Linear(3, 2))
    if distributed:
        model = DDP(model)
    opt = torch.optim.SGD(model.parameters(), lr=0.1)
    eng = PrivacyEngine(accountant="rdp")
    model, opt, dl = eng.make_private(
        module=model,
        optimizer=opt,
        data_loader=dl,
        noise_multiplier=1.0,
        max_grad_norm=[1.0] * 4 if clipping == "per_layer" else 1.0,
        clipping=clipping,
        **kw,
    )
    crit = nn.CrossEntropyLoss()
    logical = empty = 0
    try:
        for _ in range(4):
            for x, y in dl:
                logical += 1
                empty += len(x) == 0
                opt.zero_grad()
                crit(model(x), y).backward()
                opt.step()
    except Exception as e:
        print(
            f"{name} ({type(opt).__name__}): logical batch #{logical} has {len(x)} samples -> "
            f"{type(e).__name__}: {str(e)[:90]}...  recorded so far={eng.accountant.history}"
        )
        return False
    recorded = sum(n for _, _, n in eng.accountant.history)
    print(f"{name} ({type(opt).__name__}): logical={logical} (empty={empty}) recorded={recorded}")
    return recorded == logical and empty > 0


ok = [
    run("flat (reference)", False, "flat"),
    run(
        "adaptive",
        False,
        "adaptive",
        target_unclipped_quantile=0.5,
        clipbound_learning_rate=0.2,
        max_clipbound=10.0,
        min_clipbound=0.1,
        unclipped_num_std=1.0,
    ),
    run("distributed per_layer", True, "per_layer"),
]
dist.destroy_process_group()
if not all(ok):
    print("VIOLATION: an empty Poisson batch crashes the step instead of being accounted once")
    sys.exit(1)
sys.exit(0)
