"""
C05 - BatchMemoryManager leaves its skip state on the optimizer when the loop is left
in the middle of a logical batch (break, or an exception such as an OOM that the caller
handles).  BatchMemoryManager.__exit__ is `pass`:
  * optimizer._is_last_step_skipped stays True, so zero_grad() keeps p.summed_grad
    (the clipped gradients of the abandoned physical batches);
  * a signal queued for a batch whose step() was never reached stays in
    optimizer._step_skip_queue and shifts every later logical-batch boundary.
The next noised update then sums clipped gradients of TWO independent Poisson draws
(a sample drawn in both contributes 2*C), yet exactly one step with
sample_rate = q * 1 is recorded.

One-hot probe: x_i = e_i, model = Linear(N,1,bias=False), loss = sum(out), C large:
the per-sample gradient of sample i is e_i, so p.summed_grad[i] counts how many times
sample i entered the update that is being noised.
Property: a recorded step (sigma, q*k) must describe an update built from k accumulated
batches of the loader; with k=1 no sample can be counted twice and nothing drawn before
the interruption may be in it.
"""
import sys
import warnings

warnings.filterwarnings("ignore")
import torch
import torch.nn as nn
from opacus import PrivacyEngine
from opacus.utils.batch_memory_manager import BatchMemoryManager
from torch.utils.data import DataLoader, TensorDataset

N = 16


class Probe(nn.Module):
    def __init__(self):
        super().__init__()
        self.lin = nn.Linear(N, 1, bias=False)

    def forward(self, x):
        return self.lin(x)


def run(scenario):
    torch.manual_seed(1)
    ds = TensorDataset(torch.eye(N), torch.zeros(N))
    dl = DataLoader(ds, batch_size=8)  # q = 1/2, two logical batches per epoch
    model = Probe()
    opt = torch.optim.SGD(model.parameters(), lr=0.0)
    eng = PrivacyEngine(accountant="rdp")
    model, opt, dl = eng.make_private(
        module=model,
        optimizer=opt,
        data_loader=dl,
        noise_multiplier=1.0,
        max_grad_norm=10.0,
        loss_reduction="sum",
    )
    w = model._module.lin.weight
    bad = []

    # epoch 1: interrupted inside the first logical batch
    try:
        with BatchMemoryManager(
            data_loader=dl, max_physical_batch_size=2, optimizer=opt
        ) as loader:
            for i, (x, _) in enumerate(loader):
                if scenario == "exception" and i == 1:
                    raise RuntimeError("simulated OOM in the forward pass")
                opt.zero_grad()
                model(x).sum().backward()
                opt.step()
                if scenario == "break" and i == 1:
                    break
    except RuntimeError as e:
        print(f"  caught: {e}")
    print(
        f"  after leaving the context manager: skip queue={opt._step_skip_queue} "
        f"_is_last_step_skipped={opt._is_last_step_skipped} recorded={eng.accountant.history}"
    )

    # epoch 2: an ordinary, complete epoch
    in_this_logical_batch = torch.zeros(N)
    n_logical = len(dl)
    with BatchMemoryManager(
        data_loader=dl, max_physical_batch_size=2, optimizer=opt
    ) as loader:
        for x, _ in loader:
            before = sum(n for _, _, n in eng.accountant.history)
            opt.zero_grad()
            model(x).sum().backward()
            opt.step()
            in_this_logical_batch += x.sum(0)
            if sum(n for _, _, n in eng.accountant.history) > before:
                counts = w.summed_grad.flatten().round().int().tolist()
                sigma, q = eng.accountant.history[-1][:2]
                print(f"  recorded step (sigma={sigma}, sample_rate={q}); times each sample is in the noised sum: {counts}")
                if max(counts) > 1:
                    bad.append(f"a sample is counted {max(counts)}x in an update accounted with sample_rate={q}")
                in_this_logical_batch = torch.zeros(N)
    recorded = sum(n for _, _, n in eng.accountant.history)
    print(f"  epoch 2 had {n_logical} logical batches; steps recorded in total: {recorded}; "
          f"left on the optimizer: queue={opt._step_skip_queue} _is_last_step_skipped={opt._is_last_step_skipped}")
    if recorded != n_logical:
        bad.append(f"{n_logical} logical batches of the complete epoch but {recorded} recorded steps")
    return bad


violations = []
for scenario in ["break", "exception"]:
    print(f"scenario: {scenario}")
    violations += [f"[{scenario}] {b}" for b in run(scenario)]
if violations:
    print("VIOLATION:")
    for v in violations:
        print("  " + v)
    sys.exit(1)
sys.exit(0)
