"""
C05 - several make_private calls on one engine, distributed per-layer clipping
(clipping="per_layer" on a DDP / DPDDP module -> DistributedPerLayerOptimizer).

DistributedPerLayerOptimizer clips, noises and scales inside tensor hooks it registers on
the parameters (p.ddp_hooks).  A second make_private() with the objects returned by the
first one (the documented way to re-wrap: privacy_engine._prepare_optimizer unwraps the
DPOptimizer, _prepare_model re-uses the GradSampleModule) builds a second optimizer that
registers a SECOND set of hooks; the hooks of the discarded optimizer stay on the
parameters and keep firing.  On every backward pass each sample is therefore clipped and
added to p.summed_grad twice (sensitivity 2*C), noise of std sigma*C is drawn for it once
(the second hook overwrites the first), and p.accumulated_iterations is bumped twice.
Result: the noise multiplier in force is sigma/2, while the accountant records
(sigma, 2*q) - a step that was never taken with these parameters.

Measurement (one-hot probe, 1 process gloo group): the same batch is run 3000 times;
mean of p.grad over trials = scaled per-sample signal, std over trials = scaled noise;
their ratio is the noise multiplier in force (gradient far above the bound => signal = C).
"""
import sys
import tempfile
import warnings

warnings.filterwarnings("ignore")
import torch
import torch.distributed as dist
import torch.nn as nn
from opacus import PrivacyEngine
from opacus.accountants import RDPAccountant
from torch.nn.parallel import DistributedDataParallel as DDP
from torch.utils.data import DataLoader, TensorDataset

dist.init_process_group(
    "gloo", store=dist.FileStore(tempfile.mktemp(), 1), rank=0, world_size=1
)
N, C, SIGMA = 16, 3.0, 1.0


class Probe(nn.Module):
    def __init__(self):
        super().__init__()
        self.lin = nn.Linear(N, 1, bias=False)

    def forward(self, x):
        return self.lin(x)


def measure(n_make_private):
    torch.manual_seed(0)
    ds = TensorDataset(torch.eye(N) * 100, torch.zeros(N))
    dl = DataLoader(ds, batch_size=4)  # q = 1/4
    model = DDP(Probe())
    opt = torch.optim.SGD(model.parameters(), lr=0.0)
    eng = PrivacyEngine(accountant="rdp")
    loader = dl
    for _ in range(n_make_private):
        model, opt, loader = eng.make_private(
            module=model,
            optimizer=opt,
            data_loader=dl,
            noise_multiplier=SIGMA,
            max_grad_norm=[C],
            clipping="per_layer",
            poisson_sampling=False,
        )
    w = next(iter(model.parameters()))
    x, _ = next(iter(loader))
    grads = []
    for _ in range(3000):
        opt.zero_grad()
        model(x).sum().backward()
        opt.step()
        grads.append(w.grad.flatten().clone())
    grads = torch.stack(grads)
    signal = grads.mean(0)[:4].mean().item()  # samples 0..3 are in the batch
    noise = grads.std(0).mean().item()
    rec_sigma, rec_q = eng.accountant.history[-1][:2]
    return noise / signal, rec_sigma, rec_q, len(w.ddp_hooks)


def eps(sigma, q, steps=1000):
    a = RDPAccountant()
    a.history = [(sigma, q, steps)]
    return a.get_epsilon(1e-5)


bad = []
for k in (1, 2):
    eff, rec_sigma, rec_q, nhooks = measure(k)
    print(
        f"make_private x{k}: hooks on the parameter={nhooks}  noise multiplier in force={eff:.3f}  "
        f"recorded step=(sigma={rec_sigma}, sample_rate={rec_q})  [loader q=0.25]"
    )
    if abs(eff - rec_sigma) > 0.1 * rec_sigma or rec_q != 0.25:
        bad.append(
            f"make_private x{k}: in force (sigma={eff:.3f}, q=0.25), recorded (sigma={rec_sigma}, q={rec_q}); "
            f"eps after 1000 such steps: true {eps(eff, 0.25):.2f} vs reported {eps(rec_sigma, rec_q):.2f}"
        )
dist.destroy_process_group()
if bad:
    print("VIOLATION:")
    for b in bad:
        print("  " + b)
    sys.exit(1)
sys.exit(0)
