"""
C05 - IAccountant.load_state_dict stores the caller's list (self.history =
state_dict["history"], accountant.py:134) although state_dict() hands out a deep copy.
rdp/prv step() mutate that list in place (pop/append), gdp pops it and then rebinds.
Two engines restored from the same in-memory checkpoint (e.g. two fine-tuning branches
forked from one pre-training run) therefore share one history:
  * rdp / prv: the steps of branch B show up in branch C's accountant (and in the
    checkpoint dict itself);
  * gdp: the first step of branch B empties branch C's history (and the checkpoint).
Property: an accountant holds exactly one recorded step per noised step of ITS optimizer.
"""
import sys
import warnings

warnings.filterwarnings("ignore")
import torch
import torch.nn as nn
from opacus import PrivacyEngine
from torch.utils.data import DataLoader, TensorDataset


def make(acc):
    ds = TensorDataset(torch.randn(40, 4), torch.randint(0, 2, (40,)))
    dl = DataLoader(ds, batch_size=8)
    model = nn.Linear(4, 2)
    opt = torch.optim.SGD(model.parameters(), lr=0.1)
    eng = PrivacyEngine(accountant=acc)
    model, opt, dl = eng.make_private(
        module=model, optimizer=opt, data_loader=dl, noise_multiplier=1.0, max_grad_norm=1.0
    )
    return eng, model, opt, dl


def train(model, opt, dl, epochs=1):
    crit = nn.CrossEntropyLoss()
    n = 0
    for _ in range(epochs):
        for x, y in dl:
            opt.zero_grad()
            crit(model(x), y).backward()
            opt.step()
            n += 1
    return n


def total(eng):
    return sum(n for _, _, n in eng.accountant.history)


bad = []
for acc in ["rdp", "prv", "gdp"]:
    torch.manual_seed(0)
    engA, mA, oA, dA = make(acc)
    nA = train(mA, oA, dA)  # "pre-training": 5 steps
    ckpt = engA.accountant.state_dict()

    engB, mB, oB, dB = make(acc)
    engC, mC, oC, dC = make(acc)
    engB.accountant.load_state_dict(ckpt)
    engC.accountant.load_state_dict(ckpt)
    nB = train(mB, oB, dB, epochs=2)  # only branch B trains: 10 steps
    print(
        f"{acc}: A took {nA} steps; B restored and took {nB} more; C restored and took 0.  "
        f"B holds {total(engB)}, C holds {total(engC)}, checkpoint dict holds {sum(n for _, _, n in ckpt['history'])}"
    )
    if total(engC) != nA:
        bad.append(f"{acc}: accountant C holds {total(engC)} steps, its history is {nA} steps")
if bad:
    print("VIOLATION:")
    for b in bad:
        print("  " + b)
    sys.exit(1)
sys.exit(0)
