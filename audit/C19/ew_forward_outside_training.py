"""C19: GradSampleModuleExpandedWeights.forward always goes through call_for_per_sample_grads,
also in eval mode / under no_grad.  After any training step (grad_sample still set, as at the end
of an epoch of the standard zero_grad-first loop) a validation forward raises; an empty batch
(legal with Poisson sampling) raises; a keyword-only call raises.  The original module handles all."""
import sys, warnings
warnings.filterwarnings("ignore")
import torch, torch.nn as nn
from torch.utils.data import DataLoader, TensorDataset
from opacus import PrivacyEngine

class Net(nn.Module):
    def __init__(s):
        super().__init__(); s.a = nn.Linear(4, 4); s.b = nn.Linear(4, 2)
    def forward(s, features):
        return s.b(torch.relu(s.a(features)))

torch.manual_seed(0)
m = Net()
opt = torch.optim.SGD(m.parameters(), lr=0.1)
dl = DataLoader(TensorDataset(torch.randn(32, 4), torch.randint(0, 2, (32,))), batch_size=8)
gm, gopt, gdl = PrivacyEngine(accountant="rdp").make_private(
    module=m, optimizer=opt, data_loader=dl, noise_multiplier=1.0, max_grad_norm=1.0,
    grad_sample_mode="ew", poisson_sampling=False)
for x, y in gdl:                       # the textbook loop
    gopt.zero_grad(); nn.functional.cross_entropy(gm(x), y).backward(); gopt.step()
bad = []
gm.eval()
xv = torch.randn(5, 4)
ref = m(xv)
try:
    with torch.no_grad():
        out = gm(xv)
    if not torch.equal(out, ref): bad.append("eval output differs")
except Exception as e:
    bad.append(f"validation forward (eval, no_grad) after the epoch raised {type(e).__name__}: {str(e)[:110]}...")
gopt.zero_grad()
try:
    with torch.no_grad():
        out = gm(torch.randn(0, 4))
except Exception as e:
    bad.append(f"forward on an empty batch raised {type(e).__name__}: {e} (original returns shape {tuple(m(torch.randn(0,4)).shape)})")
try:
    with torch.no_grad():
        out = gm(features=xv)
    if not torch.equal(out, ref): bad.append("kw output differs")
except Exception as e:
    bad.append(f"keyword call gm(features=x) raised {type(e).__name__}: {e}")
for b in bad: print("VIOLATION:", b)
sys.exit(1 if bad else 0)
