"""C19 (state that survives an exception): make_private wraps the module first and builds the
optimizer afterwards.  If the optimizer step fails (here: clipping="adaptive" without its extra
keyword arguments -> TypeError; same for an unsupported clipping/mode combination), the user's
module stays hooked by a GradSampleModule nobody holds a reference to: plain training of the
module now computes per-sample gradients and raises on the 2nd backward, and a corrected
make_private call is refused with "Trying to add hooks twice"."""
import sys, warnings
warnings.filterwarnings("ignore")
import torch, torch.nn as nn
from torch.utils.data import DataLoader, TensorDataset
from opacus import PrivacyEngine
torch.manual_seed(0)
m = nn.Sequential(nn.Linear(4, 4), nn.ReLU(), nn.Linear(4, 2))
opt = torch.optim.SGD(m.parameters(), lr=0.1)
dl = DataLoader(TensorDataset(torch.randn(32, 4), torch.randint(0, 2, (32,))), batch_size=8)
bad = []
try:
    PrivacyEngine(accountant="rdp").make_private(module=m, optimizer=opt, data_loader=dl,
        noise_multiplier=1.0, max_grad_norm=1.0, clipping="adaptive")
    print("make_private unexpectedly succeeded"); sys.exit(0)
except Exception as e:
    first = f"{type(e).__name__}: {str(e)[:80]}"
nh = sum(len(s._forward_hooks) + len(s._backward_hooks) for s in m.modules())
if nh or hasattr(m, "autograd_grad_sample_hooks"):
    bad.append(f"after the failed make_private ({first}) the user's module carries {nh} Opacus hooks, "
               f"autograd_grad_sample_hooks={hasattr(m, 'autograd_grad_sample_hooks')}, "
               f"param attrs {sorted(m[0].weight.__dict__)}")
try:
    x, y = next(iter(dl))
    for i in range(2):
        opt.zero_grad(); nn.functional.cross_entropy(m(x), y).backward(); opt.step()
except Exception as e:
    bad.append(f"plain (non-DP) training of the module now raises on step {i+1}: {type(e).__name__}: {str(e)[:80]}")
try:
    PrivacyEngine(accountant="rdp").make_private(module=m, optimizer=opt, data_loader=dl,
        noise_multiplier=1.0, max_grad_norm=1.0)
except Exception as e:
    bad.append(f"corrected make_private call is refused: {type(e).__name__}: {e}")
for b in bad: print("VIOLATION:", b)
sys.exit(1 if bad else 0)
