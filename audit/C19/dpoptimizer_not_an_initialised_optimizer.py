"""C19: DPOptimizer subclasses torch.optim.Optimizer but never calls Optimizer.__init__ and only
forwards param_groups/state/defaults.  (a) step(closure) drops the closure's loss (inner optimizer
returns it); (b) the public Optimizer hook API (register_step_pre/post_hook,
register_state_dict_pre_hook, ...) raises AttributeError; (c) copy.deepcopy / pickling the wrapped
optimizer yields an object without original_optimizer, and Optimizer.__setstate__ re-patches
DPOptimizer.step class-wide so that EVERY DPOptimizer in the process then fails in step()."""
import sys, warnings, copy
warnings.filterwarnings("ignore")
import torch, torch.nn as nn
from torch.utils.data import DataLoader, TensorDataset
from opacus import PrivacyEngine
def setup():
    torch.manual_seed(0)
    m = nn.Sequential(nn.Linear(4, 4), nn.ReLU(), nn.Linear(4, 2))
    opt = torch.optim.SGD(m.parameters(), lr=0.1)
    dl = DataLoader(TensorDataset(torch.randn(32, 4), torch.randint(0, 2, (32,))), batch_size=8)
    return (m, opt) + tuple(PrivacyEngine(accountant="rdp").make_private(module=m, optimizer=opt, data_loader=dl,
        noise_multiplier=1.0, max_grad_norm=1.0, poisson_sampling=False))
def step(gm, gopt, gdl, closure=False):
    x, y = next(iter(gdl))
    def cl():
        gopt.zero_grad(); l = nn.functional.cross_entropy(gm(x), y); l.backward(); return l
    if closure: return gopt.step(cl)
    cl(); return gopt.step()
bad = []
m, opt, gm, gopt, gdl = setup()
r = step(gm, gopt, gdl, closure=True)
if r is None and opt.step(lambda: torch.tensor(1.0)) is not None:
    bad.append("(a) dp_optimizer.step(closure) returns None; the inner optimizer's step(closure) returns the loss")
fired = []
for name in ["register_step_post_hook", "register_step_pre_hook", "register_state_dict_pre_hook", "register_load_state_dict_post_hook"]:
    try: getattr(gopt, name)(lambda *a, **k: fired.append(name))
    except Exception as e: bad.append(f"(b) dp_optimizer.{name}(...) raised {type(e).__name__}: {e}")
step(gm, gopt, gdl)                        # works before the deepcopy
try:
    c = copy.deepcopy(gopt); c.param_groups
except Exception as e:
    bad.append(f"(c) copy.deepcopy(dp_optimizer) is unusable: {type(e).__name__}: {e}")
try:
    m, opt, gm, gopt, gdl = setup()            # a brand new engine/optimizer
    step(gm, gopt, gdl)
except Exception as e:
    bad.append(f"(c) after that deepcopy a FRESH DPOptimizer fails in step(): {type(e).__name__}: {e}")
for b in bad: print("VIOLATION:", b)
sys.exit(1 if bad else 0)
