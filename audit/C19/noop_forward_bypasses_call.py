"""C19: GradSampleModuleNoOp.forward calls self._module.forward(x, ...) instead of self._module(...):
forward (pre-)hooks the user registered on the model itself are silently skipped, so the wrapped
module computes something else than the original; and a keyword-only call raises."""
import sys, warnings
warnings.filterwarnings("ignore")
import torch, torch.nn as nn
from opacus.grad_sample import wrap_model

class Net(nn.Module):
    def __init__(s):
        super().__init__(); s.fc = nn.Linear(4, 2)
    def forward(s, features): return s.fc(features)

torch.manual_seed(0)
m = Net()
m.register_forward_pre_hook(lambda mod, args: (args[0] * 2,))         # e.g. input normalisation
m.register_forward_hook(lambda mod, args, out: torch.softmax(out, -1))  # e.g. output post-processing
x = torch.randn(3, 4)
ref = m(x)
bad = []
for mode in ["hooks", "no_op"]:
    torch.manual_seed(0)
    g = wrap_model(m, mode, batch_first=True, loss_reduction="mean")
    out = g(x)
    if not torch.equal(out, ref):
        bad.append(f"{mode}: wrapped forward differs from the original by {(out-ref).abs().max().item():.3f} (user hooks on the model were skipped)")
    g.to_standard_module() if mode == "hooks" else None
m2 = Net(); g2 = wrap_model(m2, "no_op", batch_first=True, loss_reduction="mean")
try:
    if not torch.equal(g2(features=x), m2(features=x)): bad.append("no_op kw output differs")
except Exception as e:
    bad.append(f"no_op: g(features=x) raised {type(e).__name__}: {e}")
for b in bad: print("VIOLATION:", b)
sys.exit(1 if bad else 0)
