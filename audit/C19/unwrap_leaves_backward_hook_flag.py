"""C19: GradSampleModule uses the legacy module.register_backward_hook, which sets
module._is_full_backward_hook = False; remove_hooks() removes the handles but leaves the flag.
After to_standard_module() every formerly hooked layer refuses register_full_backward_hook
(RuntimeError), which a never-wrapped module accepts.  Conversely a model that already carries a
full backward hook cannot be wrapped, and the failed wrap leaves Opacus hooks on the model."""
import sys, warnings
warnings.filterwarnings("ignore")
import torch, torch.nn as nn
from opacus import GradSampleModule
bad = []
m = nn.Sequential(nn.Linear(4, 4), nn.ReLU(), nn.Linear(4, 2))
before = m[0]._is_full_backward_hook
std = GradSampleModule(m).to_standard_module()
if m[0]._is_full_backward_hook != before:
    bad.append(f"_is_full_backward_hook on layer 0: {before} before wrapping, {m[0]._is_full_backward_hook} after to_standard_module")
try:
    h = std[0].register_full_backward_hook(lambda mod, gi, go: None); h.remove()
except Exception as e:
    bad.append(f"register_full_backward_hook on the unwrapped model raised {type(e).__name__}: {e}")

m = nn.Sequential(nn.Linear(4, 4), nn.ReLU(), nn.Linear(4, 2))
m[2].register_full_backward_hook(lambda mod, gi, go: None)
try:
    GradSampleModule(m)
except Exception as e:
    left = sum(len(s._forward_hooks) for s in m.modules())
    if left or hasattr(m, "autograd_grad_sample_hooks"):
        bad.append(f"wrapping a model with a full backward hook raised {type(e).__name__} and left {left} Opacus forward hook(s) "
                   f"+ autograd_grad_sample_hooks={hasattr(m, 'autograd_grad_sample_hooks')} on the user's model")
for b in bad: print("VIOLATION:", b)
sys.exit(1 if bad else 0)
