"""C19 (order of ordinary calls / state surviving an exception): one training-mode forward of the
wrapped model whose result is not back-propagated (shape check, a batch skipped after an exception in
the loss, logging) leaves p._forward_counter and module.activations behind; nothing ever resets them
(not optimizer.zero_grad, not module.zero_grad).  Every later, perfectly ordinary step then fails.
A plain nn.Module has no such side effect."""
import sys, warnings
warnings.filterwarnings("ignore")
import torch, torch.nn as nn
from torch.utils.data import DataLoader, TensorDataset
from opacus import PrivacyEngine
bad = []
for mode in ["hooks", "functorch", "ghost"]:
    torch.manual_seed(0)
    m = nn.Sequential(nn.Linear(4, 4), nn.ReLU(), nn.Linear(4, 2))
    opt = torch.optim.SGD(m.parameters(), lr=0.1)
    dl = DataLoader(TensorDataset(torch.randn(32, 4), torch.randint(0, 2, (32,))), batch_size=8)
    out = PrivacyEngine(accountant="rdp").make_private(module=m, optimizer=opt, data_loader=dl,
        criterion=nn.CrossEntropyLoss(), noise_multiplier=1.0, max_grad_norm=1.0,
        grad_sample_mode=mode, poisson_sampling=False)
    gm, gopt = out[0], out[1]
    crit = out[2] if mode == "ghost" else nn.CrossEntropyLoss()
    _ = gm(torch.randn(8, 4))           # discarded forward
    done = 0
    try:
        for x, y in out[-1]:
            gopt.zero_grad(); gm.zero_grad()
            crit(gm(x), y).backward(); gopt.step(); done += 1
    except Exception as e:
        bad.append(f"[{mode}] after one discarded forward, step {done+1} raises {type(e).__name__}: {str(e)[:90]}")
for b in bad: print("VIOLATION:", b)
sys.exit(1 if bad else 0)
