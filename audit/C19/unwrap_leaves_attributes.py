"""C19: to_standard_module() does not remove everything Opacus attached.
(a) p.summed_grad (set by DPOptimizer on every parameter; after the last step it still holds the
    clipped, UN-noised sum of per-sample gradients) is not in OPACUS_PARAM_MONKEYPATCH_ATTRS.
(b) remove_hooks() only visits trainable_modules(): a layer frozen while wrapped keeps
    module.activations (the captured input batch) and module.ft_compute_sample_grad."""
import sys, warnings
warnings.filterwarnings("ignore")
import torch, torch.nn as nn
from torch.utils.data import DataLoader, TensorDataset
from opacus import PrivacyEngine

class Custom(nn.Module):
    def __init__(s):
        super().__init__(); s.w = nn.Parameter(torch.randn(4, 4))
    def forward(s, x): return x @ s.w
def mk():
    torch.manual_seed(0)
    return nn.Sequential(nn.Linear(4, 4), Custom(), nn.ReLU(), nn.Linear(4, 2))
bad = []
# (a)
m = mk()
base_p = {n: set(p.__dict__) for n, p in m.named_parameters()}
opt = torch.optim.SGD(m.parameters(), lr=0.1)
dl = DataLoader(TensorDataset(torch.randn(32, 4), torch.randint(0, 2, (32,))), batch_size=8)
gm, gopt, gdl = PrivacyEngine(accountant="rdp").make_private(
    module=m, optimizer=opt, data_loader=dl, noise_multiplier=1.0, max_grad_norm=1.0, poisson_sampling=False)
for x, y in gdl:
    gopt.zero_grad(); nn.functional.cross_entropy(gm(x), y).backward(); gopt.step()
std = gm.to_standard_module()
for n, p in std.named_parameters():
    extra = set(p.__dict__) - base_p[n]
    if extra:
        v = getattr(p, "summed_grad", None)
        bad.append(f"(a) parameter {n} keeps {sorted(extra)} after to_standard_module"
                   + (f" (summed_grad is a tensor of shape {tuple(v.shape)}: the un-noised clipped gradient sum)" if torch.is_tensor(v) else ""))
        break
# (b)
m = mk()
base_m = {n: set(s.__dict__) for n, s in m.named_modules()}
gm, gopt, gdl = PrivacyEngine(accountant="rdp").make_private(
    module=m, optimizer=torch.optim.SGD(m.parameters(), lr=0.1), data_loader=dl,
    noise_multiplier=1.0, max_grad_norm=1.0, poisson_sampling=False)
_ = gm(torch.randn(8, 4))                       # a forward pass
for p in list(m[0].parameters()) + list(m[1].parameters()):
    p.requires_grad_(False)                     # freeze the first layers (fine-tuning schedule)
std = gm.to_standard_module()
for n, s in std.named_modules():
    extra = set(s.__dict__) - base_m[n]
    if extra: bad.append(f"(b) module '{n}' ({type(s).__name__}), frozen while wrapped, keeps {sorted(extra)} after to_standard_module")
for b in bad: print("VIOLATION:", b)
sys.exit(1 if bad else 0)
