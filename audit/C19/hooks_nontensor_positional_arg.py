"""C19: capture_activations_hook does [t.detach() for t in forward_input]; a hooked layer that is
called with a positional non-tensor argument (None, a size list, ...) makes the wrapped model's
training-mode forward raise although the original model (and the wrapped one in eval mode) works.
Shown with two standard layers: EmbeddingBag(input, offsets, None) and ConvTranspose2d(x, output_size)."""
import sys, warnings
warnings.filterwarnings("ignore")
import torch, torch.nn as nn
from opacus.grad_sample import wrap_model

class A(nn.Module):
    def __init__(s):
        super().__init__(); s.e = nn.EmbeddingBag(10, 4, mode="sum"); s.fc = nn.Linear(4, 2)
    def forward(s, idx, offsets): return s.fc(s.e(idx, offsets, None))
class B(nn.Module):
    def __init__(s):
        super().__init__(); s.c = nn.Conv2d(1, 2, 3, stride=2); s.d = nn.ConvTranspose2d(2, 1, 3, stride=2)
    def forward(s, x): return s.d(s.c(x), list(x.shape[-2:]))
class Leaf(nn.Module):
    def __init__(s):
        super().__init__(); s.w = nn.Parameter(torch.randn(4, 3))
    def forward(s, x, mask=None): return x @ s.w if mask is None else (x @ s.w) * mask
class C(nn.Module):
    def __init__(s):
        super().__init__(); s.l = Leaf()
    def forward(s, x): return s.l(x, None)

torch.manual_seed(0)
cases = [("EmbeddingBag(idx, offsets, None)", A, (torch.randint(0, 10, (12,)), torch.arange(0, 12, 3))),
         ("ConvTranspose2d(h, output_size)", B, (torch.randn(4, 1, 8, 8),)),
         ("custom layer(x, None)", C, (torch.randn(4, 4),))]
bad = []
for name, mk, args in cases:
    for mode in ["hooks", "functorch", "ghost"]:
        if mode != "hooks" and mk is A: continue
        m = mk(); ref = m(*args)
        g = wrap_model(m, mode, batch_first=True, loss_reduction="mean")
        try:
            out = g(*args)
            if not torch.equal(out, ref): bad.append(f"{name} [{mode}]: output differs")
        except Exception as e:
            bad.append(f"{name} [{mode}]: wrapped training-mode forward raised {type(e).__name__}: {e}")
for b in bad: print("VIOLATION:", b)
sys.exit(1 if bad else 0)
