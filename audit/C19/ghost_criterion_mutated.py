"""C19: make_private(grad_sample_mode="ghost") permanently rewrites the user's criterion
(criterion.reduction = "none") and never restores it, so ordinary training after
to_standard_module() is broken; the default-argument criterion singleton of make_private is
poisoned the same way, so a second ghost make_private with the default criterion fails."""
import sys, warnings
warnings.filterwarnings("ignore")
import torch, torch.nn as nn
from torch.utils.data import DataLoader, TensorDataset
from opacus import PrivacyEngine

def mk():
    torch.manual_seed(0)
    m = nn.Sequential(nn.Linear(4, 4), nn.ReLU(), nn.Linear(4, 2))
    opt = torch.optim.SGD(m.parameters(), lr=0.1)
    dl = DataLoader(TensorDataset(torch.randn(32, 4), torch.randint(0, 2, (32,))), batch_size=8)
    return m, opt, dl

bad = []
m, opt, dl = mk()
crit = nn.CrossEntropyLoss()  # reduction="mean"
gm, gopt, gcrit, gdl = PrivacyEngine(accountant="rdp").make_private(
    module=m, optimizer=opt, data_loader=dl, criterion=crit, noise_multiplier=1.0,
    max_grad_norm=1.0, grad_sample_mode="ghost", poisson_sampling=False)
for x, y in gdl:
    gopt.zero_grad(); gcrit(gm(x), y).backward(); gopt.step()
std = gm.to_standard_module()
if crit.reduction != "mean":
    bad.append(f"user's criterion.reduction is {crit.reduction!r} after wrap+unwrap (was 'mean')")
x, y = next(iter(dl))
try:
    opt.zero_grad(); loss = crit(std(x), y); loss.backward(); opt.step()
except Exception as e:
    bad.append(f"ordinary training step after to_standard_module raised: {type(e).__name__}: {e} (loss shape {tuple(loss.shape)})")

# second ghost make_private relying on the default criterion
for i in range(2):
    m, opt, dl = mk()
    try:
        PrivacyEngine(accountant="rdp").make_private(
            module=m, optimizer=opt, data_loader=dl, noise_multiplier=1.0, max_grad_norm=1.0,
            grad_sample_mode="ghost", poisson_sampling=False)
    except BaseException as e:
        bad.append(f"ghost make_private #{i+1} with the default criterion raised {type(e).__name__}: {str(e)[:90]}")

for b in bad: print("VIOLATION:", b)
sys.exit(1 if bad else 0)
