"""Not C19 proper (clipping/noise consistency), found on the way: make_private(grad_sample_mode="ghost")
with an already wrapped module re-uses the wrapper without looking at max_grad_norm
(privacy_engine._prepare_model checks batch_first, loss_reduction and type only).  The wrapper keeps
clipping at the OLD norm while the new optimizer calibrates the noise to the NEW one."""
import sys, warnings
warnings.filterwarnings("ignore")
import torch, torch.nn as nn
from torch.utils.data import DataLoader, TensorDataset
from opacus import PrivacyEngine
torch.manual_seed(0)
m = nn.Sequential(nn.Linear(4, 4), nn.ReLU(), nn.Linear(4, 2))
opt = torch.optim.SGD(m.parameters(), lr=0.1)
dl = DataLoader(TensorDataset(torch.randn(32, 4), torch.randint(0, 2, (32,))), batch_size=8)
pe = PrivacyEngine(accountant="rdp")
kw = dict(data_loader=dl, noise_multiplier=1.0, grad_sample_mode="ghost", poisson_sampling=False)
gm, gopt, crit, _ = pe.make_private(module=m, optimizer=opt, criterion=nn.CrossEntropyLoss(), max_grad_norm=5.0, **kw)
gm2, gopt2, crit2, _ = pe.make_private(module=gm, optimizer=gopt, criterion=nn.CrossEntropyLoss(), max_grad_norm=0.1, **kw)
if gm2.max_grad_norm != gopt2.max_grad_norm:
    print(f"VIOLATION: after the second make_private the module clips per-sample gradients at {gm2.max_grad_norm} "
          f"but the optimizer scales the noise for max_grad_norm={gopt2.max_grad_norm}")
    sys.exit(1)
sys.exit(0)
