"""nn.EmbeddingBag(mode='sum') called with per_sample_weights: the hooks grad sampler ignores the weights
(keyword call -> silently wrong per-sample gradients; positional call -> ValueError in the sampler)."""
import copy, sys, warnings
import torch, torch.nn as nn
warnings.filterwarnings("ignore")
from opacus.grad_sample import GradSampleModule

torch.manual_seed(0)
bag = nn.EmbeddingBag(10, 3, mode="sum")
inp = torch.tensor([1, 2, 4, 5, 4, 3, 2, 9, 1, 1])
offsets = torch.tensor([0, 3, 4, 8])
psw = torch.rand(10) + 0.5
B = 4
ends = [3, 4, 8, 10]
W = torch.randn(B, 3)

ref = []
for i in range(B):
    m = copy.deepcopy(bag)
    a, b = int(offsets[i]), ends[i]
    out = m(inp[a:b], torch.tensor([0]), per_sample_weights=psw[a:b])
    (out * W[i : i + 1]).sum().backward()
    ref.append(m.weight.grad.clone())
ref = torch.stack(ref)

bad = False
for call in ("keyword", "positional"):
    g = GradSampleModule(copy.deepcopy(bag), loss_reduction="sum")
    try:
        out = g(inp, offsets, per_sample_weights=psw) if call == "keyword" else g(inp, offsets, psw)
        (out * W).sum().backward()
    except Exception as e:
        print(f"[{call}] crash: {type(e).__name__}: {e}")
        bad = True
        continue
    gs = g._module.weight.grad_sample
    err = (gs - ref).abs().max().item()
    err_sum = (gs.sum(0) - g._module.weight.grad).abs().max().item()
    print(f"[{call}] max |grad_sample - single-sample grad| = {err:.4g}; |sum_i grad_sample_i - .grad| = {err_sum:.4g}")
    if err > 1e-5 or err_sum > 1e-5:
        bad = True
sys.exit(1 if bad else 0)
