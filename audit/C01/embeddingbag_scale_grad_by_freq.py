"""nn.EmbeddingBag(scale_grad_by_freq=True) (modes sum / mean): the hooks grad sampler ignores the option."""
import copy, sys, warnings
import torch, torch.nn as nn
warnings.filterwarnings("ignore")
from opacus.grad_sample import GradSampleModule

torch.manual_seed(0)
inp = torch.tensor([1, 1, 4, 5, 4, 4, 4, 9, 1, 1])
offsets = torch.tensor([0, 3, 4, 8])
ends = [3, 4, 8, 10]
B = 4
W = torch.randn(B, 3)
bad = False
for mode in ("sum", "mean"):
    bag = nn.EmbeddingBag(10, 3, mode=mode, scale_grad_by_freq=True)
    ref = []
    for i in range(B):
        m = copy.deepcopy(bag)
        a, b = int(offsets[i]), ends[i]
        (m(inp[a:b], torch.tensor([0])) * W[i : i + 1]).sum().backward()
        ref.append(m.weight.grad.clone())
    ref = torch.stack(ref)
    g = GradSampleModule(copy.deepcopy(bag), loss_reduction="sum")
    (g(inp, offsets) * W).sum().backward()
    gs = g._module.weight.grad_sample
    err = (gs - ref).abs().max().item()
    print(f"[mode={mode}] max |grad_sample - single-sample grad| = {err:.4g}")
    bad = bad or err > 1e-5
sys.exit(1 if bad else 0)
