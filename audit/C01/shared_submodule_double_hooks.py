"""Two GradSampleModules over two models that share a sub-module (two heads on one trunk; or a model and one of its
sub-models wrapped separately).  The 'Trying to add hooks twice' guard only looks at the root, so the shared layer gets two
sets of hooks and its per-sample gradients come out doubled."""
import copy, sys, warnings
import torch, torch.nn as nn
warnings.filterwarnings("ignore")
from opacus.grad_sample import GradSampleModule

torch.manual_seed(0)
trunk = nn.Linear(3, 4)
model_a = nn.Sequential(trunk, nn.Tanh(), nn.Linear(4, 2))
model_b = nn.Sequential(trunk, nn.Tanh(), nn.Linear(4, 1))
x = torch.randn(4, 3)
ref = []
for i in range(4):
    m = copy.deepcopy(model_a)
    m(x[i : i + 1]).pow(2).sum().backward()
    ref.append(m[0].weight.grad.clone())
ref = torch.stack(ref)

ga = GradSampleModule(model_a, loss_reduction="sum")
try:
    gb = GradSampleModule(model_b, loss_reduction="sum")
except ValueError as e:  # an explicit refusal would be fine
    print("refused:", e)
    sys.exit(0)
ga(x).pow(2).sum().backward()
gs = trunk.weight.grad_sample
r = gs / ref
print(f"trunk.weight: grad_sample / truth = {r.min().item():.4g}..{r.max().item():.4g}; "
      f"sum_i grad_sample_i / .grad = {(gs.sum(0) / trunk.weight.grad).mean().item():.4g}")
sys.exit(1 if (gs - ref).abs().max() > 1e-5 else 0)
