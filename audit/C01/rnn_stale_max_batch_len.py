"""DPLSTM/DPGRU/DPRNN: a PackedSequence forward that is not followed by a backward (evaluation in eval mode or under
torch.no_grad()) leaves `max_batch_len` on the RNNLinear cells.  The next training step on a padded (non-packed) batch of
another size reuses the stale value: grad_sample gets the stale number of rows and, with loss_reduction='mean', every
per-sample gradient is scaled by stale_B / B."""
import copy, sys, warnings
import torch, torch.nn as nn
warnings.filterwarnings("ignore")
from torch.nn.utils.rnn import pack_padded_sequence
from opacus.grad_sample import GradSampleModule
from opacus.layers import DPLSTM

torch.manual_seed(0)


class Net(nn.Module):
    def __init__(self):
        super().__init__()
        self.rnn = DPLSTM(3, 4, batch_first=True)
        self.fc = nn.Linear(4, 2)

    def forward(self, x):
        _, (h, _) = self.rnn(x)
        return self.fc(h[-1])


net = Net()
B = 4
x = torch.randn(B, 5, 3)
ref = {n: [] for n, _ in net.named_parameters()}
for i in range(B):
    m = copy.deepcopy(net)
    m(x[i : i + 1]).pow(2).sum().backward()
    for n, p in m.named_parameters():
        ref[n].append(p.grad.clone())
ref = {n: torch.stack(v) for n, v in ref.items()}

g = GradSampleModule(copy.deepcopy(net), batch_first=True, loss_reduction="mean")
# an evaluation pass on packed sequences, batch of 7
g.eval()
with torch.no_grad():
    g(pack_padded_sequence(torch.randn(7, 5, 3), torch.tensor([5, 5, 4, 3, 2, 2, 1]), batch_first=True))
g.train()
# an ordinary training step, batch of 4
(g(x).pow(2).sum() / B).backward()

bad = False
for n, p in g._module.named_parameters():
    gs = p.grad_sample
    if gs.shape != ref[n].shape:
        r = gs[:B][ref[n] != 0] / ref[n][ref[n] != 0]
        print(f"{n}: grad_sample shape {tuple(gs.shape)} expected {tuple(ref[n].shape)}; first {B} rows / truth = {r.min().item():.4g}..{r.max().item():.4g}")
        bad = True
    elif (gs - ref[n]).abs().max() > 1e-5:
        print(f"{n}: max err {(gs - ref[n]).abs().max().item():.3g}")
        bad = True
sys.exit(1 if bad else 0)
