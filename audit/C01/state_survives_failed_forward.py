"""State that survives an exception: a forward pass that raises after some layers ran (or any training-mode forward that is
not followed by a backward) leaves activations / _forward_counter behind; neither zero_grad() nor later steps reset
them.  Every later step then leaves grad_sample = None on those layers although .grad is computed."""
import copy, sys, warnings
import torch, torch.nn as nn
warnings.filterwarnings("ignore")
from opacus.grad_sample import GradSampleModule

torch.manual_seed(0)


class Net(nn.Module):
    def __init__(self):
        super().__init__()
        self.a, self.b = nn.Linear(3, 4), nn.Linear(4, 2)

    def forward(self, x):
        h = torch.tanh(self.a(x))
        if not torch.isfinite(h).all():
            raise RuntimeError("bad batch")
        return self.b(h)


net = Net()
g = GradSampleModule(net, loss_reduction="mean")
try:
    g(torch.full((9, 3), float("nan")))
except RuntimeError:
    pass  # the training loop skips the bad batch
g.zero_grad()
bad = False
for step in range(2):
    x = torch.randn(4, 3)
    g(x).pow(2).mean(0).sum().backward()
    gs = net.a.weight.grad_sample
    print(f"step {step}: a.weight.grad set: {net.a.weight.grad is not None}; a.weight.grad_sample: {'None' if gs is None else tuple(gs.shape)}; b.weight.grad_sample: {tuple(net.b.weight.grad_sample.shape)}")
    bad = bad or gs is None
    g.zero_grad()
sys.exit(1 if bad else 0)
