"""DPMultiheadAttention(batch_first=True, add_bias_kv=True) inside GradSampleModule(batch_first=True): the layer transposes
k, v to [S, B, E] before its SequenceBias sub-layers (always built with batch_first=False), so they see the batch on dim 1
while the wrapper treats dim 0 as the batch: backward crashes (hooks and functorch).  The same layer with add_bias_kv=False,
or with batch_first=False everywhere, works."""
import copy, sys, warnings
import torch, torch.nn as nn
warnings.filterwarnings("ignore")
from opacus.grad_sample import GradSampleModule
from opacus.layers import DPMultiheadAttention

torch.manual_seed(0)
B, L, S, E = 3, 4, 6, 8
mha = DPMultiheadAttention(E, 2, batch_first=True, add_bias_kv=True)
q, k, v = torch.randn(B, L, E), torch.randn(B, S, E), torch.randn(B, S, E)
ref = {n: [] for n, _ in mha.named_parameters()}
for i in range(B):
    m = copy.deepcopy(mha)
    m(q[i : i + 1], k[i : i + 1], v[i : i + 1])[0].pow(2).sum().backward()
    for n, p in m.named_parameters():
        ref[n].append(p.grad.clone())
bad = False
for ff in (False, True):
    g = GradSampleModule(copy.deepcopy(mha), batch_first=True, loss_reduction="sum", force_functorch=ff)
    try:
        g(q, k, v)[0].pow(2).sum().backward()
    except Exception as e:
        print(f"[{'functorch' if ff else 'hooks'}] crash in backward: {type(e).__name__}: {str(e)[:160]}")
        bad = True
        continue
    for n, p in g._module.named_parameters():
        r = torch.stack(ref[n])
        if p.grad_sample is None or p.grad_sample.shape != r.shape or (p.grad_sample - r).abs().max() > 1e-4:
            print(f"[{'functorch' if ff else 'hooks'}] {n}: wrong grad_sample")
            bad = True
sys.exit(1 if bad else 0)
