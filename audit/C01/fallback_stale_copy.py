"""The functorch fallback re-runs a deepcopy of the layer taken when the GradSampleModule was built
(functorch.py: make_functional).  Anything but the parameters that changes afterwards is not seen:
(a) a hyper-parameter attribute of the layer changed after wrapping (annealed temperature),
(b) the training flag: model wrapped in eval mode and switched to train() afterwards (or a sub-module put in eval mode after wrapping).
The real forward uses the new state, the per-sample gradient the old one: grad_sample is silently wrong and
does not even sum to .grad."""
import copy, sys, warnings
import torch, torch.nn as nn
warnings.filterwarnings("ignore")
from opacus.grad_sample import GradSampleModule

torch.manual_seed(0)


class TempLinear(nn.Module):
    def __init__(self):
        super().__init__()
        self.w = nn.Parameter(torch.randn(3, 2))
        self.temperature = 1.0

    def forward(self, x):
        y = (x @ self.w) / self.temperature
        if self.training:  # any train/eval dependent behaviour
            y = 2 * y
        return y


def truth(layer, x):
    out = []
    for i in range(x.shape[0]):
        m = copy.deepcopy(layer)
        m.zero_grad()
        m(x[i : i + 1]).pow(2).sum().backward()
        out.append(m.w.grad.clone())
    return torch.stack(out)


x = torch.randn(4, 3)
bad = False

# (a) attribute changed after wrapping
layer = TempLinear()
plain = copy.deepcopy(layer)  # unwrapped twin, same weights
g = GradSampleModule(layer, loss_reduction="sum")
layer.temperature = 4.0
plain.temperature = 4.0
g(x).pow(2).sum().backward()
ref = truth(plain, x)
r = layer.w.grad_sample / ref
print(f"(a) temperature changed after wrapping: grad_sample / truth = {r.min().item():.4g}..{r.max().item():.4g}; "
      f"|sum grad_sample - .grad| = {(layer.w.grad_sample.sum(0) - layer.w.grad).abs().max().item():.4g}")
bad = bad or (layer.w.grad_sample - ref).abs().max().item() > 1e-5

# (b) wrapped in eval mode, trained in train mode
layer = TempLinear().eval()
plain = copy.deepcopy(layer).train()
g = GradSampleModule(layer, loss_reduction="sum")
g.train()
assert layer.training
g(x).pow(2).sum().backward()
ref = truth(plain, x)
r = layer.w.grad_sample / ref
print(f"(b) wrapped in eval mode, then .train(): grad_sample / truth = {r.min().item():.4g}..{r.max().item():.4g}; "
      f"|sum grad_sample - .grad| = {(layer.w.grad_sample.sum(0) - layer.w.grad).abs().max().item():.4g}")
bad = bad or (layer.w.grad_sample - ref).abs().max().item() > 1e-5
sys.exit(1 if bad else 0)
