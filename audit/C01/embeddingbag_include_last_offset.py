"""nn.EmbeddingBag(include_last_offset=True): offsets has B+1 entries.  The sampler and _get_batch_size take
len(offsets) for the batch size: grad_sample has a phantom (B+1)-th row and, for loss_reduction='mean',
every row is scaled by (B+1)/B."""
import copy, sys, warnings
import torch, torch.nn as nn
warnings.filterwarnings("ignore")
from opacus.grad_sample import GradSampleModule

torch.manual_seed(0)
bag = nn.EmbeddingBag(10, 3, mode="sum", include_last_offset=True)
inp = torch.tensor([1, 2, 4, 5, 4, 3, 2, 9, 1, 1])
offsets = torch.tensor([0, 3, 4, 8, 10])  # 4 bags
B = 4
W = torch.randn(B, 3)
ref = []
for i in range(B):
    m = copy.deepcopy(bag)
    a, b = int(offsets[i]), int(offsets[i + 1])
    (m(inp[a:b], torch.tensor([0, b - a])) * W[i : i + 1]).sum().backward()
    ref.append(m.weight.grad.clone())
ref = torch.stack(ref)

bad = False
for red in ("sum", "mean"):
    g = GradSampleModule(copy.deepcopy(bag), loss_reduction=red)
    out = g(inp, offsets)
    assert out.shape[0] == B
    loss = (out * W).sum()
    if red == "mean":
        loss = loss / B
    loss.backward()
    gs = g._module.weight.grad_sample
    msg = f"[{red}] grad_sample shape {tuple(gs.shape)} (expected {tuple(ref.shape)})"
    if gs.shape != ref.shape:
        bad = True
        ratio = (gs[:B][ref != 0] / ref[ref != 0])
        msg += f"; first {B} rows / truth = {ratio.min().item():.4g}..{ratio.max().item():.4g}"
    else:
        err = (gs - ref).abs().max().item()
        msg += f"; max err {err:.3g}"
        bad = bad or err > 1e-5
    print(msg)
sys.exit(1 if bad else 0)
