"""torch.utils.checkpoint(use_reentrant=False) around a block of the wrapped model: the block's forward runs twice (once
in forward, once during backward) and both runs go through capture_activations_hook, so p._forward_counter never gets
back to 0: the parameters of the block get .grad but grad_sample stays None (use_reentrant=True works)."""
import copy, sys, warnings
import torch, torch.nn as nn
warnings.filterwarnings("ignore")
from torch.utils.checkpoint import checkpoint
from opacus.grad_sample import GradSampleModule

torch.manual_seed(0)


class Net(nn.Module):
    def __init__(self):
        super().__init__()
        self.a, self.b, self.c = nn.Linear(3, 4), nn.Linear(4, 4), nn.Linear(4, 2)

    def block(self, h):
        return torch.tanh(self.b(h))

    def forward(self, x):
        h = torch.tanh(self.a(x))
        h = checkpoint(self.block, h, use_reentrant=False)
        return self.c(h)


net = Net()
x = torch.randn(4, 3)
ref = []
for i in range(4):
    m = copy.deepcopy(net)
    m(x[i : i + 1]).pow(2).sum().backward()
    ref.append(m.b.weight.grad.clone())
ref = torch.stack(ref)
g = GradSampleModule(net, loss_reduction="sum")
g(x).pow(2).sum().backward()
gs = net.b.weight.grad_sample
if gs is None or isinstance(gs, list):
    print(f"b.weight: .grad set: {net.b.weight.grad is not None}; grad_sample: {type(gs).__name__}; _forward_counter left at {net.b.weight._forward_counter}")
    sys.exit(1)
err = (gs - ref).abs().max().item()
print("max err", err)
sys.exit(1 if err > 1e-5 else 0)
