"""A model in double precision (model.double()) with nn.Embedding / nn.EmbeddingBag: the hooks grad samplers allocate
the per-sample gradient with the default dtype (float32) and crash in backward.  Linear/Conv/norm layers work in float64."""
import copy, sys, warnings
import torch, torch.nn as nn
warnings.filterwarnings("ignore")
from opacus.grad_sample import GradSampleModule

torch.manual_seed(0)
bad = False

emb = nn.Sequential(nn.Embedding(10, 3), nn.Linear(3, 2)).double()
ids = torch.randint(0, 10, (4, 5))
g = GradSampleModule(copy.deepcopy(emb), loss_reduction="sum")
try:
    g(ids).pow(2).sum().backward()
    gs = g._module[0].weight.grad_sample
    ok = gs.dtype == torch.float64 and torch.allclose(gs.sum(0), g._module[0].weight.grad)
    print("Embedding float64: grad_sample dtype", gs.dtype, "sums to .grad:", ok)
    bad = bad or not ok
except Exception as e:
    print(f"Embedding float64: crash: {type(e).__name__}: {e}")
    bad = True

for mode in ("sum", "mean", "max"):
    bag = nn.EmbeddingBag(10, 3, mode=mode).double()
    g = GradSampleModule(bag, loss_reduction="sum")
    try:
        g(torch.tensor([1, 2, 4, 5, 4, 3]), torch.tensor([0, 2, 3])).pow(2).sum().backward()
        gs = g._module.weight.grad_sample
        ok = gs.dtype == torch.float64 and torch.allclose(gs.sum(0), g._module.weight.grad)
        print(f"EmbeddingBag({mode}) float64: dtype {gs.dtype}, sums to .grad: {ok}")
        bad = bad or not ok
    except Exception as e:
        print(f"EmbeddingBag({mode}) float64: crash: {type(e).__name__}: {e}")
        bad = True
sys.exit(1 if bad else 0)
