"""nn.EmbeddingBag fed a 2-D index tensor [B, L] (no offsets), the other documented calling convention:
the hooks grad sampler unpacks `index, offset = inputs` and crashes in backward."""
import copy, sys, warnings
import torch, torch.nn as nn
warnings.filterwarnings("ignore")
from opacus.grad_sample import GradSampleModule

torch.manual_seed(0)
bag = nn.EmbeddingBag(10, 3, mode="sum")
idx = torch.randint(0, 10, (4, 5))
W = torch.randn(4, 3)
ref = []
for i in range(4):
    m = copy.deepcopy(bag)
    (m(idx[i : i + 1]) * W[i : i + 1]).sum().backward()
    ref.append(m.weight.grad.clone())
ref = torch.stack(ref)
g = GradSampleModule(copy.deepcopy(bag), loss_reduction="sum")
try:
    (g(idx) * W).sum().backward()
except Exception as e:
    print(f"crash in backward: {type(e).__name__}: {e}")
    sys.exit(1)
err = (g._module.weight.grad_sample - ref).abs().max().item()
print("max err", err)
sys.exit(1 if err > 1e-5 else 0)
