"""requires_grad changed after the GradSampleModule was built (gradual freezing / unfreezing):
(a) a non-first layer frozen after wrapping: the forward hook skips it, the backward hook still runs -> ValueError;
(b) a parameter of a hooked layer unfrozen after wrapping -> AttributeError ('_forward_counter') in forward;
(c) a whole layer unfrozen after wrapping -> it trains (p.grad is set) but p.grad_sample stays None."""
import copy, sys, warnings
import torch, torch.nn as nn
warnings.filterwarnings("ignore")
from opacus.grad_sample import GradSampleModule

torch.manual_seed(0)
mk = lambda: nn.Sequential(nn.Linear(3, 4), nn.Tanh(), nn.Linear(4, 2))
x = torch.randn(4, 3)
bad = False

m = mk()
g = GradSampleModule(m, loss_reduction="sum")
m[2].requires_grad_(False)
try:
    g(x).pow(2).sum().backward()
    ok = m[0].weight.grad_sample is not None and torch.allclose(m[0].weight.grad_sample.sum(0), m[0].weight.grad, atol=1e-6)
    print("(a) ok" if ok else "(a) wrong grad_sample")
    bad = bad or not ok
except Exception as e:
    print(f"(a) last layer frozen after wrapping: crash: {type(e).__name__}: {e}")
    bad = True

m = mk()
m[0].weight.requires_grad_(False)
g = GradSampleModule(m, loss_reduction="sum")
m[0].weight.requires_grad_(True)
try:
    g(x).pow(2).sum().backward()
    ok = getattr(m[0].weight, "grad_sample", None) is not None
    print("(b) ok" if ok else "(b) grad_sample missing")
    bad = bad or not ok
except Exception as e:
    print(f"(b) weight unfrozen after wrapping: crash: {type(e).__name__}: {e}")
    bad = True

m = mk()
m[0].requires_grad_(False)
g = GradSampleModule(m, loss_reduction="sum")
m[0].requires_grad_(True)
g(x).pow(2).sum().backward()
gs = getattr(m[0].weight, "grad_sample", None)
print(f"(c) layer unfrozen after wrapping: .grad is {'set' if m[0].weight.grad is not None else 'None'}, grad_sample is {'set' if gs is not None else 'None'}")
bad = bad or (m[0].weight.grad is not None and gs is None)
sys.exit(1 if bad else 0)
