"""A parametrised layer that receives its input by keyword (self.fc(input=x)) or takes no positional input at all
(the ParametrizationList of torch.nn.utils.parametrizations.weight_norm on a bias-free Linear): forward hooks only see
positional arguments, so activations are empty and backward dies with IndexError (hooks and functorch; ew works)."""
import copy, sys, warnings
import torch, torch.nn as nn
warnings.filterwarnings("ignore")
from opacus.grad_sample import GradSampleModule

torch.manual_seed(0)


class Net(nn.Module):
    def __init__(self):
        super().__init__()
        self.fc = nn.Linear(3, 2)

    def forward(self, x):
        return self.fc(input=x)


bad = False
x = torch.randn(4, 3)
for name, model in (("Linear called with input=x", Net()),
                    ("weight_norm(Linear(bias=False))", nn.Sequential(torch.nn.utils.parametrizations.weight_norm(nn.Linear(3, 2, bias=False))))):
    g = GradSampleModule(model, loss_reduction="sum")
    try:
        g(x).pow(2).sum().backward()
        ok = all(p.grad_sample is not None and torch.allclose(p.grad_sample.sum(0), p.grad, atol=1e-5) for p in model.parameters())
        print(f"[{name}] grad_sample ok: {ok}")
        bad = bad or not ok
    except Exception as e:
        print(f"[{name}] crash in backward: {type(e).__name__}: {e}")
        bad = True
sys.exit(1 if bad else 0)
