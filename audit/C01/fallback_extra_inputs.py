"""Layers served by the functorch fallback are re-run as flayer(params, activations[0]): every input but the first
positional one is dropped.  (a) a custom layer with an optional second input (positional or keyword) gets silently wrong
per-sample gradients; (b) nn.Bilinear (two required inputs) crashes in backward."""
import copy, sys, warnings
import torch, torch.nn as nn
warnings.filterwarnings("ignore")
from opacus.grad_sample import GradSampleModule

torch.manual_seed(0)


class GatedLinear(nn.Module):
    def __init__(self):
        super().__init__()
        self.w = nn.Parameter(torch.randn(3, 2))

    def forward(self, x, gate=None):
        if gate is not None:
            x = x * gate
        return x @ self.w


class Net(nn.Module):
    def __init__(self, kw):
        super().__init__()
        self.l = GatedLinear()
        self.kw = kw

    def forward(self, x, gate):
        return self.l(x, gate=gate) if self.kw else self.l(x, gate)


B = 4
x, gate = torch.randn(B, 3), torch.rand(B, 3)
bad = False
for kw in (False, True):
    net = Net(kw)
    ref = []
    for i in range(B):
        m = copy.deepcopy(net)
        m(x[i : i + 1], gate[i : i + 1]).pow(2).sum().backward()
        ref.append(m.l.w.grad.clone())
    ref = torch.stack(ref)
    g = GradSampleModule(copy.deepcopy(net), loss_reduction="sum")
    g(x, gate).pow(2).sum().backward()
    gs = g._module.l.w.grad_sample
    err = (gs - ref).abs().max().item()
    err_sum = (gs.sum(0) - g._module.l.w.grad).abs().max().item()
    print(f"[custom layer, gate passed {'by keyword' if kw else 'positionally'}] max |grad_sample - truth| = {err:.4g}; |sum grad_sample - .grad| = {err_sum:.4g}")
    bad = bad or err > 1e-5

bil = nn.Bilinear(3, 4, 5)
g = GradSampleModule(bil, loss_reduction="sum")
try:
    g(torch.randn(B, 3), torch.randn(B, 4)).pow(2).sum().backward()
    print("nn.Bilinear: ok")
except Exception as e:
    print(f"[nn.Bilinear] crash in backward: {type(e).__name__}: {e}")
    bad = True
sys.exit(1 if bad else 0)
