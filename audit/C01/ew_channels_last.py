"""grad_sample_mode='ew' (GradSampleModuleExpandedWeights): Conv2d / Conv3d on a channels_last (non-contiguous) input
crashes in backward (.view on a non-contiguous tensor inside ExpandedWeights); hooks and functorch handle the same input."""
import copy, sys, warnings
import torch, torch.nn as nn
warnings.filterwarnings("ignore")
from opacus.grad_sample import GradSampleModuleExpandedWeights

torch.manual_seed(0)
bad = False
for name, conv, x in (("Conv2d", nn.Conv2d(3, 4, 3, padding=1), torch.randn(4, 3, 6, 6).to(memory_format=torch.channels_last)),
                      ("Conv3d", nn.Conv3d(3, 4, 2), torch.randn(4, 3, 4, 4, 4).to(memory_format=torch.channels_last_3d))):
    ref = []
    for i in range(4):
        m = copy.deepcopy(conv)
        m(x[i : i + 1]).pow(2).sum().backward()
        ref.append(m.weight.grad.clone())
    ref = torch.stack(ref)
    g = GradSampleModuleExpandedWeights(copy.deepcopy(conv), loss_reduction="sum")
    try:
        g(x).pow(2).sum().backward()
        err = (g._module.weight.grad_sample - ref).abs().max().item()
        print(f"[{name}] max err {err:.3g}")
        bad = bad or err > 1e-4
    except Exception as e:
        print(f"[{name}] crash in backward: {type(e).__name__}: {str(e)[:140]}")
        bad = True
sys.exit(1 if bad else 0)
